#!/bin/bash
# Offline setup: make sure hypothesis (and, if possible, atheris) are importable by /venv/bin/python.
cd "$(dirname "$0")" || exit 2
PY=${VERIF_PYTHON:-/venv/bin/python}
WH=/opt/veriftools/wheels
mkdir -p .deps
if ! PYTHONPATH=.deps "$PY" -c "import hypothesis" 2>/dev/null; then
    "$PY" -m pip install --no-index --find-links "$WH" --target .deps hypothesis || exit 2
fi
if ! PYTHONPATH=.deps "$PY" -c "import atheris" 2>/dev/null; then
    "$PY" -m pip install --no-index --find-links "$WH" --target .deps atheris || echo "atheris unavailable (fuzz units will be skipped)"
fi
exit 0
