"""Engine-level machinery shared by C03-C08: abstract hit specs, the reference interval-nesting model written from
the C06 statement, synthetic table-driven registries, and Hypothesis strategies for hit configurations.
"""
from __future__ import annotations

from hypothesis import strategies as st


# ---------------------------------------------------------------------------------------------
# abstract hits
# ---------------------------------------------------------------------------------------------
class H:
    """A hit as a decoder returns it: immutable spec (type, value, obfuscation, start, end, supplied children)."""

    __slots__ = ("typ", "value", "obf", "start", "end", "kids")

    def __init__(self, typ, value, obf, start, end, kids=()):
        self.typ, self.value, self.obf, self.start, self.end, self.kids = typ, value, obf, start, end, tuple(kids)

    def build(self):
        from multidecoder.node import Node

        return Node(self.typ, self.value, self.obf, self.start, self.end, children=[k.build() for k in self.kids])

    @classmethod
    def from_node(cls, n):
        return cls(n.type, n.value, n.obfuscation, n.start, n.end, [cls.from_node(c) for c in n.children])

    def frozen(self):
        return (self.typ, self.value, self.obf, self.start, self.end, tuple(k.frozen() for k in self.kids))

    def to_case(self):
        return [self.typ, self.value, self.obf, self.start, self.end, [k.to_case() for k in self.kids]]

    @classmethod
    def from_case(cls, c):
        return cls(c[0], c[1], c[2], c[3], c[4], [cls.from_case(k) for k in c[5]])


def freeze_node(n):
    return (n.type, n.value, n.obfuscation, n.start, n.end, tuple(freeze_node(c) for c in n.children))


# ---------------------------------------------------------------------------------------------
# reference model (written from the statement of C06; shares no code with multidecoder.py)
# ---------------------------------------------------------------------------------------------
def ref_scan(reg, value: bytes, depth: int):
    """reg(value) -> list[H] in registry order. Returns the frozen tree of scanning `value` with depth budget `depth`."""
    return ("", value, "", 0, len(value), ref_children(reg, "", value, depth, ()))


def ref_children(reg, typ, value, depth, supplied):
    if depth <= 0:
        return tuple(k.frozen() for k in supplied)
    if supplied:
        # only descend into sub-structure a decoder supplied itself
        return tuple((k.typ, k.value, k.obf, k.start, k.end, ref_children(reg, k.typ, k.value, depth - 1, k.kids)) for k in supplied)
    hits = [h for h in reg(value) if h.value]
    order = sorted(range(len(hits)), key=lambda i: (hits[i].start, -hits[i].end, i))
    root = {"abs": 0, "end": len(value), "typ": typ, "value": value, "kids": []}
    open_ctx = [root]
    decoded_end = 0
    for i in order:
        h = hits[i]
        if h.end <= decoded_end:
            continue  # ends inside an already-decoded span
        while len(open_ctx) > 1 and h.end > open_ctx[-1]["end"]:
            open_ctx.pop()
        par = open_ctx[-1]
        rs, re_ = h.start - par["abs"], h.end - par["abs"]
        if rs == 0 and h.value == par["value"] and h.typ == par["typ"]:
            continue  # merely restates its parent
        covered = par["value"][rs:re_] if rs >= 0 else par["value"][0:0]
        if h.value.lower() != covered.lower() or h.kids:
            decoded_end = h.end
            par["kids"].append((h.typ, h.value, h.obf, rs, re_, ref_children(reg, h.typ, h.value, depth - 1, h.kids)))
        else:
            ctx = {"abs": h.start, "end": h.end, "typ": h.typ, "value": h.value, "kids": []}
            par["kids"].append((h.typ, h.value, h.obf, rs, re_, ctx["kids"]))
            open_ctx.append(ctx)
    return _tuplify(root["kids"])


def _tuplify(kids):
    return tuple((k[0], k[1], k[2], k[3], k[4], _tuplify(k[5]) if isinstance(k[5], list) else k[5]) for k in kids)


# ---------------------------------------------------------------------------------------------
# synthetic table-driven registries
# ---------------------------------------------------------------------------------------------
class Table:
    """Registry described by data: table[value] = list over decoders of list[H]. A decoder is a pure function of the value.

    `rules` adds value-independent decoders that fire on any value (re-decodable registries):
      ("wrap", n): whole-span hit whose value is value + b"!" while len(value) < n  (always decodable again)
      ("inner",):  on values that start with b"<": a plain hit over [1, len-1)
    """

    def __init__(self, ndec: int, table: dict, rules=()):
        self.ndec = ndec
        self.table = table
        self.rules = tuple(tuple(r) for r in rules)

    def hits_for(self, value: bytes, i: int):
        per = self.table.get(value)
        out = []
        if per is not None and i < len(per):
            out.extend(per[i])
        return out

    def rule_hits(self, value: bytes, rule):
        if rule[0] == "wrap":
            if 0 < len(value) < rule[1]:
                return [H("w", value + b"!", "wrap", 0, len(value))]
            return []
        if rule[0] == "wrapkids":
            if 0 < len(value) < rule[1]:
                return [H("wk", value + b"!", "wrap", 0, len(value), [H("k", value[:1] + b"?", "", 0, 1)])]
            return []
        if rule[0] == "inner":
            if value.startswith(b"<") and len(value) >= 3:
                return [H("in", value[1:-1], "", 1, len(value) - 1)]
            return []
        raise ValueError(rule)

    def reg(self, value: bytes):
        """model-side registry: all hits for a value in registry order"""
        out = []
        for i in range(self.ndec):
            out.extend(self.hits_for(value, i))
        for r in self.rules:
            out.extend(self.rule_hits(value, r))
        return out

    def decoders(self):
        """implementation-side registry: list of callables returning fresh Node objects"""
        ds = []
        for i in range(self.ndec):
            ds.append(lambda v, i=i: [h.build() for h in self.hits_for(v, i)])
        for r in self.rules:
            ds.append(lambda v, r=r: [h.build() for h in self.rule_hits(v, r)])
        return ds

    def to_case(self):
        return {
            "ndec": self.ndec,
            "table": [[k, [[h.to_case() for h in per] for per in v]] for k, v in self.table.items()],
            "rules": [list(r) for r in self.rules],
        }

    @classmethod
    def from_case(cls, c):
        return cls(c["ndec"], {k: [[H.from_case(h) for h in per] for per in v] for k, v in c["table"]}, c.get("rules", ()))


def run_impl(table: Table, text: bytes, depth: int):
    from multidecoder.multidecoder import Multidecoder

    decs = table.decoders()
    if not decs:
        decs = [lambda v: []]
    return Multidecoder(decs).scan(text, depth)


# ---------------------------------------------------------------------------------------------
# strategies for hit configurations
# ---------------------------------------------------------------------------------------------
TYPES = ["", "t1", "t2"]
KINDS = ["plain", "plain", "case", "dec", "swap", "kids", "deckids", "restate", "empty"]
_SWAP = bytes.maketrans(b"abAB", b"baBA")


def make_hit(value: bytes, s: int, e: int, kind: str, typ: str, variant: int, parent_typ: str = ""):
    sl = value[s:e]
    if kind == "plain":
        return H(typ, sl, "", s, e)
    if kind == "case":
        return H(typ, sl.swapcase(), "cs", s, e)
    if kind == "dec":
        return H(typ, (b"<" + sl + b">") if variant % 2 == 0 else (sl[::-1] + b"x"), "d", s, e)
    if kind == "empty":
        return H(typ, b"", "e", s, e)  # a decoder may return an empty result: it is never kept and must not disturb anything
    if kind == "swap":
        # a decoding that keeps the length and carries no label (nothing but the value tells it from a plain hit)
        return H(typ, sl.translate(_SWAP), "", s, e)
    if kind == "kids":
        return H(typ, sl, "", s, e, [H("k", sl[:1], "", 0, 1)] + ([H("k2", sl[-1:] + b"y", "kd", len(sl) - 1, len(sl), [H("kk", b"z", "", 0, 1)])] if variant % 2 else []))
    if kind == "deckids":
        v = b"<" + sl + b">"
        return H(typ, v, "d", s, e, [H("k", v[1:2], "", 1, 2)])
    if kind == "restate":
        return H(parent_typ, value, "", 0, len(value))
    raise ValueError(kind)


@st.composite
def hit_spec(draw, n):
    s = draw(st.integers(0, n - 1))
    e = draw(st.integers(s + 1, n))
    return (s, e, draw(st.sampled_from(KINDS)), draw(st.sampled_from(TYPES)), draw(st.integers(0, 1)))


@st.composite
def tables(draw, max_len=12, max_hits=8, max_levels=2):
    """A synthetic registry with explicit hit sets for the root text and (recursively) for decoded values."""
    text = bytes(draw(st.lists(st.sampled_from(list(b"aAbB")), min_size=1, max_size=max_len)))
    ndec = draw(st.integers(1, 4))
    table = {}
    pending = [(text, "", 0)]
    while pending:
        value, ptyp, level = pending.pop()
        if value in table or not value:
            continue
        nh = draw(st.integers(0, max_hits if level == 0 else 3))
        per = [[] for _ in range(ndec)]
        for _ in range(nh):
            s, e, kind, typ, variant = draw(hit_spec(len(value)))
            h = make_hit(value, s, e, kind, typ, variant, ptyp)
            per[draw(st.integers(0, ndec - 1))].append(h)
            if level < max_levels and h.value.lower() != value[s:e].lower() and not h.kids:
                pending.append((h.value, h.typ, level + 1))
            for k in h.kids:
                if level < max_levels and not k.kids:
                    pending.append((k.value, k.typ, level + 1))
        table[value] = per
    rules = draw(st.sampled_from([(), (), (("inner",),), (("wrap", 6),), (("inner",), ("wrap", 5))]))
    depth = draw(st.sampled_from([0, 1, 1, 2, 2, 3, 4, 10]))
    return {"text": text, "registry": Table(ndec, table, rules).to_case(), "depth": depth}


def overlapping(specs) -> bool:
    """at least two hits whose intervals overlap (share a byte)"""
    iv = sorted((h.start, h.end) for h in specs)
    for (a, b), (c, d) in zip(iv, iv[1:]):
        if c < b:
            return True
    return False
