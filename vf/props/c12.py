"""C12 - URL and Windows-path parts index into, and decode from, their parent's value."""
from __future__ import annotations

import ipaddress
import re

from hypothesis import strategies as st

from .. import netref as R
from .. import strategies as S
from ..observe import CaseTimeout, guarded, walk_iter
from ..unit import Outcome, Unit

ID = "C12"
RULE = (
    "cases: URLs built component by component (scheme in all letter-case mixes; userinfo incl. empty user / empty password / "
    "escaped delimiters; host = registered domain, escaped domain, canonical IPv4, obfuscated IPv4 (decimal / hex / octal / "
    "short forms), bracketed IPv6 full or compressed; optional port; path with '.', '..', empty and %2F / %2e segments; empty "
    "and non-empty query / fragment with escapes), so the position and decoding of every part inside the normalised value is "
    "known by construction; Windows paths built from prefix (drive, drive-relative, rooted, relative, UNC with @SSL@port, "
    r"\\?\ and \\.\ device forms incl. UNC and Volume{guid}) + segments incl. '.' / '..' + file name; each embedded between "
    "neutral delimiters and located with the decoder directly and through a full scan. Forward form: every URL / Windows-path "
    "node of generated token-soup scans must relate to its children the same way. Non-trivial = URL with a percent-escape, "
    "dot segment or userinfo / path with a dot segment or host; distinct by case hash."
)
ASSUMPTIONS = [
    "percent normalisation, path normalisation, inet_aton forms, IPv6 compression and Windows dot-segment normalisation are re-implemented in vf/netref.py from the statement",
    "Windows semantics for '..' (the share / device component is never removed); generated paths never make '..' reach a protected component, so the naive and the Windows reading agree",
    "URLs end in an alphanumeric character or '/' and are delimited by spaces (the URL regex deliberately refuses trailing punctuation and trims at an enclosing quote / parenthesis)",
]

# -------------------------------------------------------------------------------------------------
# URL construction
# -------------------------------------------------------------------------------------------------
WORDCH = b"abcdefghijklmnopqrstuvwxyz0123456789"


def _word(lo=1, hi=6, alpha=WORDCH):
    return st.lists(st.sampled_from(list(alpha)), min_size=lo, max_size=hi).map(bytes)


def _pct(chars_st, allowed: bytes):
    """bytes -> text where characters outside `allowed` are escaped and allowed ones are escaped at random (upper/lower hex)"""

    def enc(t):
        s, flags = t
        out = b""
        for i, c in enumerate(s):
            f = flags[i % len(flags)]
            if c not in allowed or f % 4 == 0:
                out += (b"%%%02x" if f % 2 else b"%%%02X") % c
            else:
                out += bytes([c])
        return out

    return st.tuples(chars_st, st.lists(st.integers(0, 7), min_size=1, max_size=6)).map(enc)


SCHEMES = [b"http", b"https", b"ftp", b"HTTP", b"Http", b"hTTps", b"FTP", b"HTTPS", b"fTp"]
TLDS = [b"com", b"org", b"net", b"co.uk", b"info", b"xn--p1ai", b"museum"]
USER_SAFE = R.UNRESERVED + b"!$&'()*+,;="


@st.composite
def url_parts(draw):
    p = {}
    p["scheme"] = draw(st.sampled_from(SCHEMES))
    ui = draw(st.integers(0, 5))
    p["user"] = p["password"] = None
    if ui == 1:
        p["user"] = draw(_pct(_word(1, 5, WORDCH + b"@:/ "), R.UNRESERVED))
    elif ui == 2:
        p["user"] = draw(_pct(_word(1, 5), R.UNRESERVED))
        p["password"] = draw(st.one_of(st.just(b""), _pct(_word(1, 5, WORDCH + b":!$@"), R.UNRESERVED + b":!$")))
    elif ui == 3:
        p["user"] = b""
        p["password"] = draw(st.one_of(st.just(b""), _word(1, 4)))
    hk = draw(st.sampled_from(["domain", "domain", "pctdomain", "ip", "ipobf", "ipv6"]))
    p["host_kind"] = hk
    if hk in ("domain", "pctdomain"):
        d = draw(st.tuples(st.lists(_word(1, 8, WORDCH + b"-"), min_size=1, max_size=3).map(b".".join), st.sampled_from(TLDS)).map(lambda t: t[0].strip(b"-.") .replace(b"-.", b".").replace(b".-", b".") + b"." + t[1]))
        d = re.sub(rb"\.+", b".", d).lstrip(b".")
        if draw(st.booleans()):
            d = d.upper() if draw(st.booleans()) else d.title()
        p["host_plain"] = d
        p["host"] = d if hk == "domain" else draw(_pct(st.just(d), R.UNRESERVED))
    elif hk == "ip":
        ip = draw(st.tuples(*[st.integers(0, 255)] * 4).map(lambda t: b"%d.%d.%d.%d" % t))
        p["host_plain"] = ip
        p["host"] = ip
    elif hk == "ipobf":
        n = draw(st.integers(0, 2**32 - 1))
        form = draw(st.integers(0, 5))
        a, b_, c, d_ = n >> 24 & 255, n >> 16 & 255, n >> 8 & 255, n & 255
        host = [b"%d" % n, b"0x%x" % n, b"0%o.%d" % (a, n & 0xFFFFFF), b"0x%x.0x%x.%d" % (a, b_, n & 0xFFFF), b"0%o.0%o.0%o.0%o" % (a, b_, c, d_), b"%d.%d.%d.0x%x" % (a, b_, c, d_)][form]
        p["host_plain"] = b"%d.%d.%d.%d" % (a, b_, c, d_)
        p["host"] = host
    else:
        n = draw(st.one_of(st.integers(0, 2**128 - 1), st.integers(0, 2**16).map(lambda x: x << 64), st.just(1)))
        a = ipaddress.IPv6Address(n)
        txt = draw(st.sampled_from([a.exploded.encode(), a.compressed.encode(), a.exploded.upper().encode()]))
        p["host_plain"] = a.compressed.encode()
        p["host"] = b"[" + txt + b"]"
    p["port"] = draw(st.sampled_from([None, None, b"", b"80", b"8080", b"65535", b"0", b"443"]))
    if draw(st.integers(0, 4)) == 0:
        p["path"] = None
    else:
        seg = st.one_of(_word(1, 5), _word(1, 5), st.just(b"."), st.just(b".."), st.just(b""), _pct(_word(1, 6, WORDCH + b"/ ."), R.UNRESERVED), st.sampled_from([b"%2e", b"%2E%2e", b"a%2Fb", b"%2f", b".%2e", b"x.y", b"..."]), st.tuples(st.integers(0, 255), st.booleans(), _word(0, 2)).map(lambda t: t[2] + ((b"%%%02x" if t[1] else b"%%%02X") % t[0])))
        p["path"] = b"/" + b"/".join(draw(st.lists(seg, min_size=0, max_size=5)))
    p["query"] = draw(st.one_of(st.none(), st.none(), st.just(b""), st.tuples(_word(1, 4), _pct(_word(0, 6, WORDCH + b" &=/?"), R.UNRESERVED + b"=&/?")).map(lambda t: t[0] + b"=" + t[1])))
    p["fragment"] = draw(st.one_of(st.none(), st.none(), st.just(b""), _pct(_word(1, 6, WORDCH + b" /?"), R.UNRESERVED + b"/?")))
    p["tail"] = draw(st.sampled_from([b"", b"", b"z", b"/"]))
    return p


def assemble(p):
    """returns (raw url, expected children as list of (type, value, label, start, end) in the normalised value)"""
    N = R.pct_normalise
    raw = p["scheme"] + b"://"
    comps = []
    sch = p["scheme"]
    comps.append(("network.url.scheme", sch.lower(), "MixedCase" if sch not in (sch.lower(), sch.upper()) else "", 0, len(sch)))
    if p["user"] is not None:
        if p["user"]:
            comps.append(("network.url.username", R.pct_decode(p["user"]), "", len(N(raw)), len(N(raw + p["user"]))))
        raw += p["user"]
        if p["password"] is not None:
            raw += b":"
            if p["password"]:
                comps.append(("network.url.password", R.pct_decode(p["password"]), "", len(N(raw)), len(N(raw + p["password"]))))
            raw += p["password"]
        raw += b"@"
    hs = len(N(raw))
    host_text = N(p["host"])
    hk = p["host_kind"]
    if hk in ("domain", "pctdomain"):
        comps.append(("network.domain", p["host_plain"], "", hs, hs + len(host_text)))
    elif hk in ("ip", "ipobf"):
        comps.append(("network.ip", p["host_plain"], "ip_obfuscation" if host_text != p["host_plain"] else "", hs, hs + len(host_text)))
    else:
        comps.append(("network.ipv6", p["host_plain"], "ip_obfuscation" if host_text[1:-1] != p["host_plain"] else "", hs + 1, hs + len(host_text) - 1))
    raw += p["host"]
    if p["port"] is not None:
        raw += b":" + p["port"]
    tail = p["tail"]
    path = p["path"]
    query, frag = p["query"], p["fragment"]
    # the tail character goes to the last component present so that the URL ends in a safe character
    if frag is not None:
        frag = frag + (tail if tail != b"/" or True else b"")
    elif query is not None:
        query = query + tail
    elif path is not None:
        path = path + tail
    if path is not None:
        v, removed = R.url_path_ref(N(path))
        comps.append(("network.url.path", v, "url.dotpath" if removed else "", len(N(raw)), len(N(raw + path))))
        raw += path
    if query is not None:
        raw += b"?"
        if query:
            comps.append(("network.url.query", R.pct_decode(query), "", len(N(raw)), len(N(raw + query))))
        raw += query
    if frag is not None:
        raw += b"#"
        if frag:
            comps.append(("network.url.fragment", R.pct_decode(frag), "", len(N(raw)), len(N(raw + frag))))
        raw += frag
    return raw, comps


def url_cases():
    return st.fixed_dictionaries({"parts": S.cached("c12.url_parts", url_parts), "pre": st.sampled_from([b"see ", b"", b"lorem ipsum\n", b"x = "]), "suf": st.sampled_from([b" now", b"", b"\nquux", b" ;"])})


def check_url(case) -> Outcome:
    from multidecoder.decoders.network import find_urls

    o = Outcome()
    p = case["parts"]
    raw, comps = assemble(p)
    if raw[-1:] in b"').,;" or not re.fullmatch(rb"[\w!#-/:;=@?~\[\]]+", raw):
        return o.exclude("url ends in punctuation the regex deliberately refuses")
    if len(R.pct_normalise(p["host"])) < 4 and p["host_kind"] != "ipv6":
        return o.exclude("host shorter than 4 characters (regex minimum)")
    if p["host_kind"] in ("domain", "pctdomain") and (len(p["host_plain"]) < 4 or not re.fullmatch(rb"[A-Za-z0-9-]+(\.[A-Za-z0-9-]+)+", p["host_plain"]) or not R.is_registered_domain(p["host_plain"])):
        return o.exclude("degenerate generated domain")
    if p["host_kind"] == "ipv6" and len(p["host"]) - 2 < 3:
        return o.exclude("IPv6 text shorter than 3 characters (regex minimum)")
    text = case["pre"] + raw + case["suf"]
    a, b = len(case["pre"]), len(case["pre"]) + len(raw)
    if case["pre"]:
        prev = case["pre"][-1]
        ctx10 = case["pre"][-10:]
        if raw[prev : prev + 1] == b"0" and not (ctx10.isascii() and ctx10.decode("ascii").isprintable()):
            return o.exclude("documented heuristic: URL preceded by a length byte (Pascal string in a PE file)")
    hits = find_urls(text)
    mine = [h for h in hits if (h.start, h.end) == (a, b)]
    if not mine:
        return o.violate("url:not-found-or-wrong-span", {"url": raw, "hits": [(h.start, h.end, h.value) for h in hits], "expected_span": [a, b]})
    h = mine[0]
    nv = R.pct_normalise(raw)
    if h.value != nv:
        o.violate("url:value-not-normalised", {"url": raw, "got": h.value, "expected": nv})
        return o
    if h.obfuscation != ("escape.percent" if len(nv) < len(raw) else ""):
        o.violate("url:escape-label", {"url": raw, "got": h.obfuscation})
    got = [(c.type, c.value, c.obfuscation, c.start, c.end) for c in h.children]
    if got != comps:
        gt = {g[0]: g for g in got}
        for c in comps:
            g = gt.get(c[0])
            if g is None:
                o.violate("url:part-missing:" + c[0], {"url": raw, "expected": c, "value": nv})
            elif g != c:
                what = "span" if g[3:] != c[3:] else ("label" if g[2] != c[2] else "value")
                o.violate("url:part-%s:%s" % (what, c[0]), {"url": raw, "got": g, "expected": c, "value": nv, "got_text": nv[g[3] : g[4]]})
        for g in got:
            if g[0] not in {c[0] for c in comps}:
                o.violate("url:part-unexpected:" + g[0], {"url": raw, "got": g})
        if not o.violations:
            o.violate("url:part-order", {"url": raw, "got": got, "expected": comps})
    o.nontrivial = len(nv) < len(raw) or p["user"] is not None or (p["path"] or b"").find(b".") >= 0
    o.label("host:" + p["host_kind"])
    if p["user"] is not None:
        o.label("userinfo")
    if len(nv) < len(raw):
        o.label("escape-normalised")
    if any(c[0] == "network.url.path" and c[2] for c in comps):
        o.label("dot-segment-removed")
    if p["query"] == b"" or p["fragment"] == b"" or p["password"] == b"" or p["user"] == b"":
        o.label("empty-component")
    return o


# -------------------------------------------------------------------------------------------------
# Windows paths
# -------------------------------------------------------------------------------------------------
PREFIXES = [
    # (text, type, protected leading segments, rooted, host text or None, host offset)
    (b"C:\\", "windows.path", 0, True, None),
    (b"d:\\", "windows.path", 0, True, None),
    (b"C:", "windows.path", 0, False, None),
    (b"\\", "windows.path", 0, True, None),
    (b"", "windows.path", 0, False, None),
    (b"\\\\server01\\", "windows.unc.path", 1, True, b"server01"),
    (b"\\\\files.example.com\\", "windows.unc.path", 1, True, b"files.example.com"),
    (b"\\\\10.1.2.3\\", "windows.unc.path", 1, True, b"10.1.2.3"),
    (b"\\\\files.example.org@SSL\\", "windows.unc.path", 1, True, b"files.example.org"),
    (b"\\\\10.1.2.3@SSL@8443\\", "windows.unc.path", 1, True, b"10.1.2.3"),
    (b"\\\\evil.example.net@8080\\", "windows.unc.path", 1, True, b"evil.example.net"),
    (b"\\\\?\\C:\\", "windows.device.path", 0, True, None),
    (b"\\\\.\\C:\\", "windows.device.path", 0, True, None),
    (b"\\\\?\\UNC\\files.example.com\\", "windows.device.path", 1, True, b"files.example.com"),
    (b"\\\\.\\UNC\\10.1.2.3\\", "windows.device.path", 1, True, b"10.1.2.3"),
    (b"\\\\?\\UNC\\server01\\", "windows.device.path", 1, True, b"server01"),
    (b"\\\\?\\Volume{12345678-1234-1234-1234-123456789abc}\\", "windows.device.path", 0, True, None),
    (b"\\\\?\\", "windows.device.path", 1, True, None),
]
NAMECH = b"abcdefghijklmnopqrstuvwxyzABCXYZ0123456789_-"


@st.composite
def path_parts(draw):
    pre = draw(st.sampled_from(PREFIXES))
    name = _word(3, 8, NAMECH)
    segs = draw(st.lists(st.one_of(name, name, st.just(b"."), st.just(b".."), st.tuples(name, st.sampled_from([b".d", b".v2"])).map(b"".join)), min_size=1, max_size=5))
    fname = draw(st.tuples(name, st.sampled_from([b"", b".txt", b".exe", b".dll", b".EXE", b".tar.gz", b".Dll"])).map(b"".join))
    return {"prefix": pre[0], "segments": segs, "filename": fname}


def path_cases():
    return st.fixed_dictionaries({"parts": S.cached("c12.path_parts", path_parts), "pre": st.sampled_from([b"see ", b"", b"lorem\n"]), "suf": st.sampled_from([b" now", b"", b"\nquux"])})


def _prefix_info(prefix):
    for p in PREFIXES:
        if p[0] == prefix:
            return p
    raise KeyError(prefix)


def check_path(case) -> Outcome:
    from multidecoder.decoders.path import find_windows_path

    o = Outcome()
    p = case["parts"]
    prefix, typ, protected, rooted, host = _prefix_info(p["prefix"])
    segs = list(p["segments"])
    # by construction: '.'/'..' never touch a protected component (share / device name)
    depth = 0
    for i, s in enumerate(segs):
        if s == b"..":
            if depth <= protected and protected:
                return o.exclude("'..' would reach a protected share/device component (ambiguous reading)")
            depth = max(0, depth - 1)
        elif s == b".":
            if i < protected:
                return o.exclude("'.' in the share position")
        else:
            depth += 1
    if protected and (not segs or segs[0] in (b".", b"..")):
        return o.exclude("'.' in the share position")
    raw = prefix + b"\\".join(segs) + b"\\" + p["filename"]
    text = case["pre"] + raw + case["suf"]
    if case["pre"][-1:].isalnum() or (case["pre"] and prefix == b"" and False):
        return o.exclude("no delimiter")
    a, b = len(case["pre"]), len(case["pre"]) + len(raw)
    hits = find_windows_path(text)
    mine = [h for h in hits if (h.start, h.end) == (a, b)]
    if not mine:
        return o.violate("winpath:not-found-or-wrong-span", {"path": raw, "hits": [(h.start, h.end, h.value) for h in hits], "expected_span": [a, b]})
    h = mine[0]
    exp_value = R.win_normalise(prefix, protected, rooted, segs + [p["filename"]])
    if h.value != exp_value:
        o.violate("winpath:value-not-normalised", {"path": raw, "got": h.value, "expected": exp_value})
        return o
    if h.type != typ:
        o.violate("winpath:type", {"path": raw, "got": h.type, "expected": typ})
    if h.obfuscation != ("windows.dotpath" if len(exp_value) < len(raw) else ""):
        o.violate("winpath:dotpath-label", {"path": raw, "got": h.obfuscation, "value": h.value})
    kids = [(c.type, c.value, c.obfuscation, c.start, c.end) for c in h.children]
    exp = []
    if host is not None:
        hs = exp_value.index(host)
        if R.canonical_quad(host):
            exp.append(("network.ip", host, "", hs, hs + len(host)))
        elif R.is_registered_domain(host):
            exp.append(("network.domain", host, "", hs, hs + len(host)))
    fn = p["filename"]
    if b"." in fn.strip(b".")[1:] or (b"." in fn and not fn.startswith(b".")):
        ext = fn[fn.rindex(b".") :].lower()
        ftype = {b".exe": "executable.filename", b".dll": "executable.library.filename"}.get(ext, "filename")
        exp.append((ftype, fn, "", len(exp_value) - len(fn), len(exp_value)))
    if kids != exp:
        for e in exp:
            g = [k for k in kids if k[0] == e[0]]
            if not g:
                o.violate("winpath:child-missing:" + e[0].split(".")[0], {"path": raw, "expected": e, "got": kids})
            elif g[0] != e:
                o.violate("winpath:child-%s:%s" % ("span" if g[0][3:] != e[3:] else "value", e[0].split(".")[0]), {"path": raw, "expected": e, "got": g[0], "value": h.value, "got_text": h.value[g[0][3] : g[0][4]]})
        for k in kids:
            if k[0] not in {e[0] for e in exp}:
                o.violate("winpath:child-unexpected:" + k[0], {"path": raw, "got": k})
    o.nontrivial = len(exp_value) < len(raw) or host is not None
    o.label("prefix:" + typ)
    if len(exp_value) < len(raw):
        o.label("winpath:dot-segment-removed")
    if host is not None:
        o.label("winpath:host")
    return o


# -------------------------------------------------------------------------------------------------
# forward form on fuzzed documents and full scans of constructed cases
# -------------------------------------------------------------------------------------------------
_md = None


def scanner():
    global _md
    if _md is None:
        from multidecoder.multidecoder import Multidecoder

        _md = Multidecoder()
    return _md


def forward_url(u, o: Outcome):
    """every part child must select its component text in the URL node's value and decode from it"""
    val = u.value
    sp = R.split_url(val)
    for c in u.children:
        if not (0 <= c.start <= c.end <= len(val)):
            o.violate("fwd:url:child-out-of-bounds:" + c.type, {"url": val, "child": [c.type, c.start, c.end]})
            continue
        t = val[c.start : c.end]
        if c.type == "network.url.scheme":
            if c.value != t.lower() or c.start != 0 or val[c.end : c.end + 3] != b"://":
                o.violate("fwd:url:scheme", {"url": val, "text": t, "value": c.value})
            mixed = t not in (t.lower(), t.upper())
            if (c.obfuscation == "MixedCase") != mixed:
                o.violate("fwd:url:scheme-label", {"url": val, "text": t, "label": c.obfuscation})
        elif c.type in ("network.url.username", "network.url.password", "network.url.query", "network.url.fragment"):
            if c.value != R.pct_decode(t):
                o.violate("fwd:url:decode:" + c.type.rsplit(".", 1)[1], {"url": val, "text": t, "value": c.value})
            if sp is not None:
                want = {"network.url.query": sp["query"], "network.url.fragment": sp["fragment"]}.get(c.type)
                if c.type in ("network.url.query", "network.url.fragment") and want != t:
                    o.violate("fwd:url:component-text:" + c.type.rsplit(".", 1)[1], {"url": val, "text": t, "component": want})
        elif c.type == "network.url.path":
            v, removed = R.url_path_ref(t)
            if c.value != v or (c.obfuscation == "url.dotpath") != removed:
                o.violate("fwd:url:path", {"url": val, "text": t, "value": c.value, "label": c.obfuscation, "expected": [v, removed]})
            if sp is not None and sp["path"] != t:
                o.violate("fwd:url:component-text:path", {"url": val, "text": t, "component": sp["path"]})
        elif c.type in ("network.domain", "network.ip", "network.ipv6"):
            if sp is not None:
                host = sp["host"]
                inner = host
                if c.type == "network.ipv6":
                    inner = host[1:-1] if host.startswith(b"[") else (host[3:-3] if host[:3].upper() == b"%5B" else host)
                if t != inner:
                    o.violate("fwd:url:component-text:host", {"url": val, "text": t, "host": host, "kind": c.type})
                    continue
            d = R.pct_decode(t)
            if c.type == "network.domain":
                if c.value != d:
                    o.violate("fwd:url:host-domain-value", {"url": val, "text": t, "value": c.value})
            elif c.type == "network.ip":
                canon = R.inet_aton_ref(d)
                if canon is None:
                    o.violate("fwd:url:host-ip-from-non-ip-text", {"url": val, "text": t, "value": c.value})
                elif canon != c.value or (c.obfuscation == "ip_obfuscation") != (t != canon):
                    o.violate("fwd:url:host-ip", {"url": val, "text": t, "value": c.value, "label": c.obfuscation, "canonical": canon})
            else:
                g = R.ipv6_groups(d)
                if g is None:
                    o.violate("fwd:url:host-ipv6-from-non-ipv6-text", {"url": val, "text": t, "value": c.value})
                else:
                    canon = R.ipv6_compress(g)
                    if canon != c.value or (c.obfuscation == "ip_obfuscation") != (t != canon):
                        o.violate("fwd:url:host-ipv6", {"url": val, "text": t, "value": c.value, "label": c.obfuscation, "canonical": canon})


def forward_winpath(n, o: Outcome):
    val = n.value
    for c in n.children:
        if not (0 <= c.start <= c.end <= len(val)):
            o.violate("fwd:winpath:child-out-of-bounds", {"path": val, "child": [c.type, c.start, c.end]})
            continue
        t = val[c.start : c.end]
        if c.type in ("network.ip", "network.domain"):
            # the host is the component after the leading \\ (or after \\?\UNC\), up to an '@' marker
            m = re.match(rb"(?i)\\\\(?:[.?]\\UNC\\)?([^\\@]+)", val)
            if not m or (c.start, c.end) != m.span(1):
                o.violate("fwd:winpath:host-span", {"path": val, "text": t, "span": [c.start, c.end]})
            elif c.type == "network.domain" and c.value != t:
                o.violate("fwd:winpath:host-value", {"path": val, "text": t, "value": c.value})
            elif c.type == "network.ip" and R.inet_aton_ref(t) != c.value:
                o.violate("fwd:winpath:host-value", {"path": val, "text": t, "value": c.value})
        elif c.type in ("filename", "executable.filename", "executable.library.filename"):
            # (other children, e.g. a shell.cmd or keyword hit the engine nested under an undecoded path, are not path parts)
            last = re.sub(rb"^[A-Za-z]:", b"", val.rsplit(b"\\", 1)[-1])  # a drive is not part of the file name
            if t != last or c.value != last or c.end != len(val):
                o.violate("fwd:winpath:filename", {"path": val, "text": t, "value": c.value})


def fwd_docs():
    frag = st.one_of(S.frag_url(), S.frag_url(), S.frag_path(), S.fragment(2), S.neutral(1, 2))
    return st.lists(st.tuples(frag, st.sampled_from([b" ", b"\n", b"; ", b"'", b"("])).map(b"".join), min_size=1, max_size=4).map(b"".join)


def fwd_cases():
    return st.fixed_dictionaries({"data": fwd_docs()})


def check_forward(case) -> Outcome:
    o = Outcome()
    try:
        root = guarded(5.0, scanner().scan, case["data"])
    except CaseTimeout:
        return o.exclude("slow-scan")
    except Exception as e:
        return o.exclude("scan-raised:" + type(e).__name__)
    n_url = n_path = 0
    for n, p, _ in walk_iter(root):
        if n.type == "network.url":
            n_url += 1
            forward_url(n, o)
        elif n.type in ("windows.path", "windows.unc.path", "windows.device.path"):
            n_path += 1
            forward_winpath(n, o)
    o.nontrivial = n_url + n_path > 0
    if n_url:
        o.label("fwd:url-node")
    if n_path:
        o.label("fwd:winpath-node")
    return o


def check_url_scan(case) -> Outcome:
    """the constructed URL through a full scan: the node found by the engine carries the same children"""
    o = Outcome()
    p = case["parts"]
    raw, comps = assemble(p)
    if raw[-1:] in b"').,;" or not re.fullmatch(rb"[\w!#-/:;=@?~\[\]]+", raw) or (len(R.pct_normalise(p["host"])) < 4 and p["host_kind"] != "ipv6"):
        return o.exclude("not in the regex's language by construction")
    if p["host_kind"] in ("domain", "pctdomain") and (not re.fullmatch(rb"[A-Za-z0-9-]+(\.[A-Za-z0-9-]+)+", p["host_plain"]) or not R.is_registered_domain(p["host_plain"])):
        return o.exclude("degenerate generated domain")
    if p["host_kind"] == "ipv6" and len(p["host"]) - 2 < 3:
        return o.exclude("IPv6 text shorter than 3 characters (regex minimum)")
    text = b"lorem " + raw + b" ipsum"
    try:
        root = guarded(5.0, scanner().scan, text)
    except CaseTimeout:
        return o.exclude("slow-scan")
    except Exception as e:
        return o.exclude("scan-raised:" + type(e).__name__ + " (C01's business)")
    found = [c for c in root.children if c.type == "network.url" and (c.start, c.end) == (6, 6 + len(raw))]
    if not found:
        enclosing = [c for c in root.children if c.start <= 6 and c.end >= 6 + len(raw)]
        if enclosing:
            return o.exclude("url nested in / shadowed by another result")
        return o.violate("url:scan:not-found", {"url": raw, "children": [(c.type, c.start, c.end) for c in root.children][:6]})
    u = found[0]
    got = [(c.type, c.value, c.obfuscation, c.start, c.end) for c in u.children]
    if got != comps:
        o.violate("url:scan:children-differ", {"url": raw, "got": got, "expected": comps})
    forward_url(u, o)
    o.nontrivial = True
    return o


def units(tier):
    q = tier == "quick"
    return [
        Unit("urls", "hyp", check=check_url, strategy=url_cases, budget=40000 if q else 1000000),
        Unit("winpaths", "hyp", check=check_path, strategy=path_cases, budget=30000 if q else 600000),
        Unit("url_scans", "hyp", check=check_url_scan, strategy=url_cases, budget=6000 if q else 100000),
        Unit("forward", "hyp", check=check_forward, strategy=fwd_cases, budget=12000 if q else 200000),
    ]
