"""C10 - Reported network indicators are well-formed and normalised."""
from __future__ import annotations

import re

from hypothesis import strategies as st

from .. import netref as R
from .. import strategies as S
from ..observe import CaseTimeout, guarded, walk_iter
from ..unit import Outcome, Unit
from . import c12

ID = "C10"
RULE = (
    "cases: documents biased to network tokens and their near-misses - IPv4 in canonical / zero-padded / hex / out-of-range / "
    "5-part forms, domains over registered and unregistered TLDs, shorter than 7 characters, with underscores, false-positive "
    "shapes, e-mail addresses with valid / invalid domains, URLs with all schemes, empty hosts, every kind of percent-escape "
    "(arbitrary byte values in both hex cases, malformed escapes), the URLs built from parts by C12's generator - bare, "
    "quoted, parenthesised, inside UNC / device paths and re-encoded (base64 / hex / UTF-16 / concatenation) so that nodes "
    "appear at every tree level. Every node typed network.ip / ipv6 / domain / email / url anywhere in the tree is checked "
    "against predicates written from the statement. Non-trivial = the tree contains at least one network node; "
    "distinct by document hash. Per-type node counts are reported."
)
ASSUMPTIONS = [
    "'registered top-level domain' = membership in multidecoder.domains.TOP_LEVEL_DOMAINS (the IANA table shipped with the library); everything else is re-implemented",
    "'found in free text' = the node's parent is not a URL or Windows-path node (those hosts are decoded from the parent's value)",
]

_md = None


def scanner():
    global _md
    if _md is None:
        from multidecoder.multidecoder import Multidecoder

        _md = Multidecoder()
    return _md


PARENT_DECODES_HOST = {"network.url", "windows.unc.path", "windows.device.path", "windows.path"}


def check_node(n, parent, o: Outcome):
    t = n.type
    v = n.value
    free = parent.type not in PARENT_DECODES_HOST
    if t == "network.ip":
        if not R.canonical_quad(v):
            o.violate("ip:value-not-canonical-quad", {"value": v, "original": n.original[:60], "parent": parent.type})
        elif free and v != n.original:
            o.violate("ip:free-text-value-differs-from-text", {"value": v, "original": n.original[:60]})
        if free and n.obfuscation:
            o.violate("ip:free-text-labelled-obfuscated", {"value": v, "label": n.obfuscation})
        return "ip"
    if t == "network.ipv6":
        g = R.ipv6_groups(v)
        if g is None or R.ipv6_compress(g) != v:
            o.violate("ipv6:value-not-compressed-form", {"value": v})
        return "ipv6"
    if t == "network.domain":
        if not R.is_registered_domain(v):
            o.violate("domain:no-name-or-unregistered-tld", {"value": v, "parent": parent.type})
        elif free:
            if not re.fullmatch(rb"[A-Za-z0-9.-]+", v):
                o.violate("domain:free-text-forbidden-character", {"value": v})
            elif len(v) < 7:
                o.violate("domain:free-text-shorter-than-7", {"value": v})
            elif v != n.original:
                o.violate("domain:free-text-value-differs-from-text", {"value": v, "original": n.original[:60]})
        return "domain"
    if t == "network.email":
        if v.count(b"@") < 1:
            o.violate("email:no-at-sign", {"value": v})
        else:
            local, dom = v.rsplit(b"@", 1)
            if not local:
                o.violate("email:empty-local-part", {"value": v})
            if not R.is_registered_domain(dom) or not re.fullmatch(rb"[A-Za-z0-9.-]+", dom):
                o.violate("email:domain-not-a-registered-domain", {"value": v})
        return "email"
    if t == "network.url":
        org = n.original
        sp = R.split_url(org)
        if sp is None or sp["scheme"].lower() not in (b"http", b"https", b"ftp"):
            o.violate("url:scheme-not-http-https-ftp", {"original": org[:100]})
        elif not sp["host"]:
            o.violate("url:empty-host", {"original": org[:100]})
        exp = R.pct_normalise(org)
        if v != exp:
            o.violate("url:value-not-normalised-text", {"original": org[:120], "got": v[:120], "expected": exp[:120]})
        if (n.obfuscation == "escape.percent") != (len(exp) < len(org)):
            o.violate("url:escape-label", {"original": org[:120], "label": n.obfuscation, "shortened": len(exp) < len(org)})
        return "url"
    return None


def check_doc(case) -> Outcome:
    o = Outcome()
    try:
        root = guarded(5.0, scanner().scan, case["data"], case.get("depth", 10))
    except CaseTimeout:
        return o.exclude("slow-scan")
    except Exception as e:
        return o.exclude("scan-raised:" + type(e).__name__ + " (C01's business)")
    counts = {}
    for n, p, _ in walk_iter(root):
        if n.type.startswith("network.") and 0 <= n.start <= n.end <= len(p.value):
            k = check_node(n, p, o)
            if k:
                counts[k] = counts.get(k, 0) + 1
    o.nontrivial = bool(counts)
    for k in counts:
        o.label("node:" + k)
    return o


# ---- generators ---------------------------------------------------------------------------------------------
OCT = [b"0", b"1", b"10", b"127", b"255", b"256", b"299", b"08", b"010", b"0x7f", b"192", b"99", b"001", b"300", b"1000"]
TLDS_OK = [b"com", b"org", b"net", b"co.uk", b"info", b"museum", b"xn--p1ai", b"travelersinsurance", b"io", b"py"]
TLDS_BAD = [b"zz", b"invalid", b"exe0", b"c", b"comx", b"local1"]


def net_tokens():
    octet = st.sampled_from(OCT)
    ip = st.tuples(octet, octet, octet, octet).map(b".".join)
    label = st.lists(st.sampled_from(list(b"abcdefghijklmnopqrstuvwxyzABC0123456789-_")), min_size=1, max_size=8).map(bytes)
    dom = st.tuples(st.lists(label, min_size=1, max_size=3).map(b".".join), st.one_of(st.sampled_from(TLDS_OK), st.sampled_from(TLDS_OK), st.sampled_from(TLDS_BAD))).map(b".".join)
    email = st.tuples(st.lists(st.sampled_from(list(b"abcxyz019._%+-")), min_size=1, max_size=8).map(bytes), dom).map(b"@".join)
    esc = st.tuples(st.integers(0, 255), st.booleans()).map(lambda t: (b"%%%02x" if t[1] else b"%%%02X") % t[0])
    urlpiece = st.one_of(esc, esc, st.sampled_from([b"a", b"/", b"?", b"#", b"=", b"&", b"%", b"%4", b"%zz", b"..", b".", b"~", b"%7e", b"%2F", b"%2f", b"@", b":"]))
    url = st.tuples(
        st.sampled_from([b"http", b"https", b"ftp", b"HtTp", b"FTP", b"hxxp", b"file", b"httpx", b"ws"]),
        st.sampled_from([b"://", b"://", b"://", b":/", b":///"]),
        st.sampled_from([b"", b"", b"u@", b"u:p@", b"%41:%5b@"]),
        st.one_of(dom, ip, st.sampled_from([b"", b"[::1]", b"[0:0:0:0:0:0:0:1]", b"%65x%61mple.com", b"localhost", b"0x7f.1", b"3232235777", b"a_b.com", b".com", b"%2Eio", b"..org", b"com", b".", b"a..com", b"-.net"])),
        st.sampled_from([b"", b"", b":80", b":99999", b":"]),
        st.sampled_from([b"", b"/", b"/"]),
        st.lists(urlpiece, max_size=8).map(b"".join),
    ).map(b"".join)
    built = S.cached("c12.url_parts", c12.url_parts).map(lambda p: c12.assemble(p)[0])
    unc = st.tuples(st.sampled_from([b"\\\\", b"\\\\?\\UNC\\", b"\\\\.\\UNC\\"]), st.one_of(dom, ip, st.sampled_from([b".com", b"..org", b"com", b"a_b.com"])), st.sampled_from([b"", b"@SSL", b"@SSL@443", b"@8080"]), st.just(b"\\share\\file.txt")).map(b"".join)
    return st.one_of(ip, ip, dom, dom, email, url, url, url, built, built, unc, S.frag_net(), S.frag_url())


def wrap_net(inner):
    return st.one_of(
        inner,
        inner,
        inner.map(lambda x: b"'" + x + b"'"),
        inner.map(lambda x: b"(" + x + b")"),
        inner.map(lambda x: b"\x05" + x),
        inner.map(lambda x: S.b64(b"lorem ipsum " + x + b" dolor amet")),
        inner.map(lambda x: S.hexs(b"see " + x + b" now")),
        inner.map(lambda x: S.utf16(x + b" quux")),
        inner.map(lambda x: b'"' + x[: len(x) // 2] + b'" + "' + x[len(x) // 2 :] + b'"'),
        inner.map(lambda x: b"atob('" + S.b64(b"go " + x) + b"')"),
        inner.map(lambda x: b"version=" + x),
    )


def net_docs():
    tok = wrap_net(net_tokens())
    return st.lists(st.tuples(tok, st.sampled_from([b" ", b"\n", b"; ", b", ", b"\t"])).map(b"".join), min_size=1, max_size=4).map(lambda xs: b"".join(xs)[:6000])


def net_cases():
    return st.fixed_dictionaries({"data": S.cached("c10.net_docs", net_docs), "depth": st.sampled_from([10, 10, 2, 1])})


def soup_cases():
    return st.fixed_dictionaries({"data": S.documents(heavy=False), "depth": st.just(10)})


def units(tier):
    q = tier == "quick"
    return [
        Unit("net", "hyp", check=check_doc, strategy=net_cases, budget=24000 if q else 800000),
        Unit("soup", "hyp", check=check_doc, strategy=soup_cases, budget=12000 if q else 200000),
    ]
