"""C08 - Sub-results of a decoded node are exactly a scan of its decoded value."""
from __future__ import annotations

from hypothesis import strategies as st

from .. import strategies as S
from ..engine import Table, freeze_node, tables
from ..invariants import Analysis, decoded_rec
from ..observe import CaseTimeout, Recorder, abs_nodes, guarded
from ..unit import Outcome, Unit
from . import _engine_common as E

ID = "C08"
RULE = (
    "cases: (document, depth K) with the shipped registry and (text, synthetic table registry, K): every decoded node that "
    "carries no decoder-supplied sub-structure (and every childless decoder-supplied leaf) is re-scanned on its own - "
    "scan_node(Node(type, value), remaining depth reconstructed from the path) - and compared child for child; "
    "(blob, two different neutral surroundings / offsets / context wrappers): the sub-tree under the blob's node must be "
    "identical. Non-trivial = a compared decoded node with at least one child (resp. a blob whose node has children); "
    "distinct by case hash."
)
ASSUMPTIONS = [
    "remaining depth = K minus one per decoded ancestor-or-self and per decoder-supplied-child step",
    "an independent scan uses a second scanner built from the same registry",
]

_md = None


def fresh_scanner():
    global _md
    if _md is None:
        from multidecoder.multidecoder import Multidecoder

        _md = Multidecoder()
    return _md


def check_subscans(an: Analysis, K: int, scanner, o: Outcome):
    from multidecoder.node import Node

    compared = with_children = 0
    stack = [(an.root, K)]
    while stack:
        p, rem = stack.pop()
        for c in p.children:
            h = an.hit_by_id.get(id(c))
            supplied = id(c) in an.supplied_by
            if h is not None and not supplied and not decoded_rec(h):
                stack.append((c, rem))  # undecoded context: same pass
                continue
            crem = rem - 1
            has_supplied_kids = any(id(x) in an.supplied_by for x in c.children) or (h is not None and bool(h.supplied))
            if not has_supplied_kids:
                sub = scanner.scan_node(Node(c.type, c.value), crem)
                compared += 1
                if c.children:
                    with_children += 1
                if [freeze_node(x) for x in sub.children] != [freeze_node(x) for x in c.children]:
                    o.violate(
                        "subscan-differs:" + ("supplied-leaf" if supplied else "decoded"),
                        {"type": c.type, "obf": c.obfuscation, "value": c.value[:200], "remaining": crem, "in_tree": [freeze_node(x) for x in c.children][:6], "independent": [freeze_node(x) for x in sub.children][:6]},
                    )
            stack.append((c, crem))
    return compared, with_children


def doc_cases():
    return st.fixed_dictionaries({"data": st.one_of(S.documents(heavy=False), S.nested_docs()), "depth": st.sampled_from([1, 2, 3, 4, 10])})


def check_doc(case) -> Outcome:
    o = Outcome()
    an = E.analyse_doc(case, o)
    if an is None:
        return o
    try:
        compared, wc = guarded(20.0, check_subscans, an, case["depth"], fresh_scanner(), o)
    except CaseTimeout:
        return o.exclude("slow-subscans(>20s)")
    o.nontrivial = wc > 0
    if compared:
        o.label("compared-decoded-node")
    if wc:
        o.label("decoded-node-with-children")
    return o


def check_table(case) -> Outcome:
    from multidecoder.multidecoder import Multidecoder

    o = Outcome()
    tab = Table.from_case(case["registry"])
    decs = tab.decoders() or [lambda v: []]
    rec = Recorder(registry=decs)
    root = rec.scan(case["text"], case["depth"])
    an = Analysis(rec, root, case["text"])
    compared, wc = check_subscans(an, case["depth"], Multidecoder(decs), o)
    o.nontrivial = wc > 0
    if wc:
        o.label("table:decoded-node-with-children")
    return o


# ---- surroundings do not matter --------------------------------------------------------------------
BLOBS_INNER = [b"http://evil.example.com/a/b.exe", b"1.2.3.4 strlen", b"mail@example.org", b"C:\\Users\\bob\\evil.dll", b"cmd /c calc.exe", b"evil.example.com VirtualAlloc"]


def blob():
    inner = st.sampled_from(BLOBS_INNER)
    return st.one_of(
        inner.map(lambda p: S.b64(p + b" lorem ipsum dolor")),
        inner.map(lambda p: b"atob('" + S.b64(p) + b"')"),
        inner.map(lambda p: S.hexs(p + b" lorem")),
        inner.map(lambda p: S.utf16(p)),
        inner.map(lambda p: S.xmlrefs(p, 1)),
        inner.map(lambda p: b'reverse("' + p[::-1] + b'")'),
        inner.map(lambda p: b'"' + p[: len(p) // 2] + b'" + "' + p[len(p) // 2 :] + b'"'),
        inner.map(lambda p: b"unescape('" + b"".join(b"%%%02X" % c for c in p) + b"')"),
        inner.map(lambda p: b"atob('" + S.b64(S.hexs(p + b" lorem")) + b"')"),
    )


def surround():
    return st.tuples(S.neutral(0, 4), st.sampled_from([b" ", b"\n", b"\t"]), st.sampled_from([b" ", b"\n", b"\t"]), S.neutral(0, 3), st.sampled_from(["plain", "createobject", "cmd"]))


def surround_cases():
    return st.fixed_dictionaries({"blob": blob(), "s1": surround(), "s2": surround(), "depth": st.sampled_from([2, 3, 10])})


def _embed(blob_, s):
    pre, sep1, sep2, suf, ctx = s
    body = sep1 + blob_ + sep2
    start_in_body = len(sep1)
    if ctx == "createobject":
        body = b"CreateObject(" + body + b")"
        start_in_body += len(b"CreateObject(")
    elif ctx == "cmd":
        body = b"cmd /c " + body + b"\x00"
        start_in_body += len(b"cmd /c ")
    text = pre + b" " + body + b" " + suf
    a = len(pre) + 1 + start_in_body
    return text, a, a + len(blob_)


def check_surround(case) -> Outcome:
    o = Outcome()
    md = fresh_scanner()
    subs = []
    for s in (case["s1"], case["s2"]):
        text, a, b = _embed(case["blob"], s)
        try:
            root = guarded(5.0, md.scan, text, case["depth"])
        except CaseTimeout:
            return o.exclude("slow-scan")
        except Exception as e:
            return o.exclude("scan-raised:" + type(e).__name__ + " (C01's business)")
        found = [n for (x, y, n) in abs_nodes(root) if (x, y) == (a, b) and n.value.lower() != n.original.lower()]
        if not found:
            return o.exclude("blob-node-not-found(shadowed or context consumed it)")
        n = found[0]
        subs.append((n.type, n.value, n.obfuscation, tuple(freeze_node(c) for c in n.children)))
    if subs[0] != subs[1]:
        o.violate("surroundings-change-subresults", {"blob": case["blob"], "s1": case["s1"], "s2": case["s2"], "sub1": subs[0], "sub2": subs[1]})
    o.nontrivial = bool(subs[0][3])
    if case["s1"][4] != case["s2"][4]:
        o.label("different-context-kinds")
    return o


def units(tier):
    q = tier == "quick"
    return [
        Unit("docs", "hyp", check=check_doc, strategy=doc_cases, budget=12000 if q else 200000),
        Unit("tables", "hyp", check=check_table, strategy=lambda: tables(max_levels=3), budget=20000 if q else 300000),
        Unit("surround", "hyp", check=check_surround, strategy=surround_cases, budget=8000 if q else 100000),
    ]
