"""C06 - The scan engine conforms to the interval-nesting model for any registry.

Oracle: the reference procedure of the statement (vf.engine.ref_scan), written independently of multidecoder.py.
Domain: synthetic table-driven registries - exhaustive up to a size bound, Hypothesis-sampled beyond - plus the hit
streams the shipped decoders actually produce on generated documents, replayed through the model.
"""
from __future__ import annotations

import itertools

from hypothesis import strategies as st

from .. import strategies as S
from ..engine import H, Table, freeze_node, make_hit, overlapping, ref_scan, run_impl, tables
from ..observe import CaseTimeout, Recorder, guarded
from ..unit import Outcome, Unit

ID = "C06"
RULE = (
    "case = (text, registry as a table value -> hits per decoder, depth). Exhaustive: text b'aAbB'[:L], every ordered "
    "sequence of up to 3 hits (one decoder each, so every registry order) drawn from all intervals x {plain, case-changed, "
    "decoding, unlabelled same-length decoding, with supplied children, decoding with supplied children} x 2 types, depth in {1,2}, plus a rule that fires "
    "again on decoded values. Sampled: text <= 12 over {a,A,b,B}, <= 8 root hits + hits on decoded values two levels down, "
    "1-4 decoders, re-decodable rules, depth 0-10. Streams: hits recorded (deep-copied at return time) from the shipped "
    "registry on generated documents, replayed through the model. Non-trivial = at least two hits with overlapping "
    "intervals on some searched value; distinct by case hash (enumerated cases are distinct by construction)."
)
ASSUMPTIONS = [
    "the reference model is my reading of the C06 statement",
    "registries return hits with non-empty value and 0 <= start < end <= len(text); recorded real streams containing any other hit (known finding K1) are discarded and counted",
    "decoders are pure functions of the searched value (a value searched twice yields the same hits)",
]
EXHAUSTIVE = {"quick": True, "thorough": True}
EXHAUSTIVE_SCOPE = {
    "quick": "text length 3 (6 intervals x 6 kinds x 2 types = 72 hit specs), all ordered sequences of 0..3 hits, depth 1 and 2 (unit enum)",
    "thorough": "text length 4 (120 hit specs) x all ordered sequences of 0..3 hits, and text length 3 x all ordered sequences of 4 hits over 5 kinds (60 specs); depth 1 and 2 (unit enum)",
}

ENUM_KINDS = ["plain", "case", "dec", "swap", "kids", "deckids"]
ENUM_TYPES = ["", "t1"]


def diff_key(got, exp) -> str:
    def contents(t, acc):
        for k in t[5]:
            acc.append(k[:3])
            contents(k, acc)
        return acc

    g, e = sorted(contents(got, [])), sorted(contents(exp, []))
    if g == e:
        return "model:structure"
    if len(g) < len(e):
        return "model:lost-hit"
    if len(g) > len(e):
        return "model:extra-hit"
    return "model:content"


def check_table(case) -> Outcome:
    o = Outcome()
    text, depth = case["text"], case["depth"]
    tab = Table.from_case(case["registry"])
    got = freeze_node(run_impl(tab, text, depth))
    exp = ref_scan(tab.reg, text, depth)
    if got != exp:
        o.violate(diff_key(got, exp), {"text": text, "depth": depth, "got": got, "expected": exp})
    specs = [h for per in tab.table.get(text, []) for h in per]
    o.nontrivial = overlapping(specs)
    if o.nontrivial:
        o.label("overlap")
    if any(h.kids for h in specs):
        o.label("supplied-children")
    if depth <= 0:
        o.label("depth<=0")
    if len(tab.table) > 1:
        o.label("multi-level")
    if tab.rules:
        o.label("re-decodable-rule")
    return o


def enum_specs(L, kinds=None):
    text = b"aAbB"[:L]
    specs = []
    for s in range(L):
        for e in range(s + 1, L + 1):
            for kind in kinds or ENUM_KINDS:
                for typ in ENUM_TYPES:
                    specs.append(make_hit(text, s, e, kind, typ, 0))
    return text, specs


def run_enum(ctx, shard, nshards, seed, budget):
    from multidecoder.multidecoder import Multidecoder

    plans = [(3, 3)] if budget == 0 else [(4, 3), (3, 4)]
    evals = nt = 0
    for L, maxhits in plans:
        # the 4-hit layer keeps the five original kinds (26 M configurations with six would double the thorough run)
        text, specs = enum_specs(L, ENUM_KINDS if maxhits == 3 else [k for k in ENUM_KINDS if k != "swap"])
        inner = ("inner",)
        idx = 0
        for n in range(0, maxhits + 1):
            if (L, maxhits) == (3, 4) and n < 4:
                continue  # already covered by the length-4 plan's smaller configurations in spirit; only the 4-hit layer is new
            for combo in itertools.product(range(len(specs)), repeat=n):
                idx += 1
                if idx % nshards != shard:
                    continue
                hs = [specs[i] for i in combo]
                tab = Table(len(hs), {text: [[h] for h in hs]}, (inner,))
                ov = overlapping(hs)
                for depth in (1, 2):
                    got = freeze_node(Multidecoder(tab.decoders()).scan(text, depth))
                    exp = ref_scan(tab.reg, text, depth)
                    evals += 1
                    if ov:
                        nt += 1
                    if got != exp:
                        o = Outcome()
                        o.nontrivial = ov
                        o.violate(diff_key(got, exp), {"text": text, "depth": depth, "hits": [h.frozen() for h in hs], "got": got, "expected": exp})
                        ctx.record({"text": text, "registry": tab.to_case(), "depth": depth}, o)
                        evals -= 1
                        nt -= 1 if ov else 0
                if idx % 50021 == shard and n >= 2:
                    ctx.sample({"text": text, "hits": [h.frozen() for h in hs], "depths": [1, 2]})
    ctx.bulk(evals, nt, {"enum.configs": evals})


# ---- real hit streams ---------------------------------------------------------------------------
_rec = None


def stream_cases():
    return st.fixed_dictionaries({"data": S.documents(), "depth": st.sampled_from([1, 2, 3, 10])})


def check_stream(case) -> Outcome:
    global _rec
    if _rec is None:
        _rec = Recorder(keep_specs=True)
    o = Outcome()
    data, depth = case["data"], case["depth"]
    try:
        root = guarded(5.0, _rec.scan, data, depth)
    except CaseTimeout:
        return o.exclude("slow-scan(>5s; totality is C01's business)")
    except Exception as e:  # totality is C01's business
        return o.exclude("scan-raised:" + type(e).__name__)
    got = freeze_node(root)
    by_value: dict = {}
    seen_text_ids = {}
    impure = False
    for r in _rec.hits:
        tid = id(r.text)
        if tid not in seen_text_ids:
            first = r.text not in by_value
            seen_text_ids[tid] = first
            if first:
                by_value[r.text] = []
        if seen_text_ids[tid]:
            by_value[r.text].append(r.spec)
    for text, hs in by_value.items():
        for h in hs:
            if not (0 <= h.start < h.end <= len(text)):
                if h.value:
                    return o.exclude("stream-with-out-of-bounds-hit")
    exp = ref_scan(lambda v: by_value.get(v, []), data, depth)
    if got != exp:
        o.violate("stream:" + diff_key(got, exp), {"data": data, "depth": depth, "got": got, "expected": exp})
    o.nontrivial = any(overlapping(hs) for hs in by_value.values())
    if o.nontrivial:
        o.label("stream.overlap")
    if len(by_value) > 1:
        o.label("stream.multi-level")
    return o


def units(tier):
    q = tier == "quick"
    return [
        Unit("enum", "custom", run=run_enum, check=check_table, budget=0 if q else 1, scalable=False, exhaustive=True),
        Unit("sampled", "hyp", check=check_table, strategy=lambda: tables(), budget=40000 if q else 800000),
        Unit("streams", "hyp", check=check_stream, strategy=stream_cases, budget=12000 if q else 200000),
    ]
