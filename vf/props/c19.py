"""C19 - Flattening substitutes decoded values for their original spans and nothing else."""
from __future__ import annotations

from hypothesis import strategies as st

from .. import strategies as S
from ..observe import CaseTimeout, guarded
from ..unit import Outcome, Unit
from . import _engine_common as E

ID = "C19"
RULE = (
    "cases: random well-formed trees (values over {a,b,c,d,\"}, 0-5 children per node ordered by start, in bounds, "
    "overlapping / nested / coinciding / identity children, string and non-string types, depth <= 4) compared with an "
    "independent reference flatten; identity trees (every node equals the text it covers) must flatten to the root value; "
    "scan results of generated documents whose trees satisfy the precondition are compared with the reference, and scans in "
    "which the recorder saw no decoded hit must flatten to the input. Non-trivial = the reference substitutes at least one "
    "child (for identity trees / undecoded scans: the tree has at least one node); distinct by case hash."
)
ASSUMPTIONS = [
    "precondition of the statement: children in bounds and ordered by start (scan results violating it - known findings K1/K2 - are skipped and counted)",
]

TYPES = ["", "string", "vba.string", "x", "stringy", "powershell.string", "String"]


def ref_flatten(node, stats=None):
    """node = (type, value, start, end, children) tuples or Node objects (duck-typed through accessors below)"""
    typ, value, children = _acc(node)
    out = []
    pos = 0
    last_end = 0
    for c in children:
        ctyp, cvalue, cstart, cend = _span(c)
        if cstart < last_end:
            if stats is not None:
                stats["skipped_overlap"] += 1
            continue
        f = ref_flatten(c, stats)
        if f == value[cstart:cend]:
            if stats is not None:
                stats["left_alone"] += 1
            continue
        out.append(value[pos:cstart])
        out.append(b'"' + f + b'"' if ctyp.endswith("string") else f)
        if stats is not None:
            stats["substituted"] += 1
            if ctyp.endswith("string"):
                stats["quoted"] += 1
        pos = cend
        last_end = cend
    out.append(value[pos:])
    return b"".join(out)


def _acc(n):
    if isinstance(n, (list, tuple)):
        return n[0], n[1], n[4]
    return n.type, n.value, n.children


def _span(n):
    if isinstance(n, (list, tuple)):
        return n[0], n[1], n[2], n[3]
    return n.type, n.value, n.start, n.end


def build(t, link=True):
    """link=False attaches the children after construction, so their parent pointers stay unset: the statement's
    precondition is about child spans and order only, flattening must not depend on parent links"""
    from multidecoder.node import Node

    if link:
        return Node(t[0], t[1], "", t[2], t[3], children=[build(c) for c in t[4]])
    n = Node(t[0], t[1], "", t[2], t[3])
    for c in t[4]:
        n.children.append(build(c, False))
    return n


ALPHA = list(b'abcd"')


class _Tape:
    """deterministic tree builder driven by a flat list of small integers (fast to generate and to shrink)"""

    def __init__(self, tape):
        self.tape = tape
        self.i = 0

    def nxt(self, n):
        """next value in range(n)"""
        if n <= 0:
            return 0
        v = self.tape[self.i] if self.i < len(self.tape) else 0
        self.i += 1
        return v % n


def tree_from_tape(tape, identity=False):
    t = _Tape(tape)

    def node(depth, ident, value=None):
        if value is None:
            value = bytes(ALPHA[t.nxt(len(ALPHA))] for _ in range(t.nxt(9)))
        kids = []
        if depth > 0 and value:
            n = t.nxt(6 if depth >= 3 else 4)
            starts = sorted(t.nxt(len(value) + 1) for _ in range(n))
            for s in starts:
                e = s + t.nxt(len(value) - s + 1)
                is_ident = ident or t.nxt(4) == 0
                k = node(depth - 1, ident, value[s:e] if is_ident else None)
                kids.append([TYPES[t.nxt(len(TYPES))], k[1], s, e, k[4]])
        return ["", value, 0, len(value), kids]

    return node(3, identity)


def tree_cases():
    return st.lists(st.integers(0, 255), min_size=40, max_size=160).map(lambda tape: {"tree": tree_from_tape(tape)})


def identity_cases():
    return st.lists(st.integers(0, 255), min_size=40, max_size=160).map(lambda tape: {"tree": tree_from_tape(tape, identity=True)})


def check_tree(case) -> Outcome:
    o = Outcome()
    t = case["tree"]
    node = build(t)
    stats = {"skipped_overlap": 0, "left_alone": 0, "substituted": 0, "quoted": 0}
    exp = ref_flatten(t, stats)
    got = node.flatten()
    if got != exp:
        key = "flatten:differs"
        o.violate(key, {"tree": t, "got": got, "expected": exp})
    got2 = build(t, link=False).flatten()
    if got2 != exp:
        o.violate("flatten:differs:children-without-parent-links", {"tree": t, "got": got2, "expected": exp})
    o.nontrivial = stats["substituted"] > 0
    for k, v in stats.items():
        if v:
            o.label(k.replace("_", "-"))
    return o


def check_identity(case) -> Outcome:
    o = Outcome()
    t = case["tree"]
    node = build(t)
    got = node.flatten()
    if got != t[1]:
        o.violate("flatten:identity-tree-changed", {"tree": t, "got": got})
    o.nontrivial = bool(t[4])
    return o


def _precondition(root):
    stack = [root]
    while stack:
        n = stack.pop()
        last = 0
        for c in n.children:
            if not (0 <= c.start <= c.end <= len(n.value)) or c.start < last:
                return False
            last = c.start
            stack.append(c)
    return True


def _nothing_decoded_as_returned(an) -> bool:
    for h in an.rec.hits:
        if h.value and not (0 <= h.start <= h.end <= len(h.text) and h.value == h.text[h.start : h.end]):
            return False
    for n, p, _ in an.nodes:
        if id(n) in an.supplied_by and p is not None and n.value != p.value[n.start : n.end]:
            return False
    return True


def _partial_overlap(an) -> bool:
    iv = sorted({(h.start, h.end) for h in an.rec.hits if h.value and h.text is an.data})
    return any(a < c < b < d for i, (a, b) in enumerate(iv) for (c, d) in iv[i + 1 :])


def check_scan(case) -> Outcome:
    o = Outcome()
    an = E.analyse_doc(case, o)
    if an is None:
        return o
    root = an.root
    if _nothing_decoded_as_returned(an):
        # "the scan of an input in which nothing is decoded flattens to the root value unchanged": judged on what the decoders
        # returned (every value is the text under its own span), whatever tree the engine built from it
        o.label("nothing-decoded:as-returned")
        if _partial_overlap(an):
            o.label("nothing-decoded:partially-overlapping-hits")
        try:
            flat = root.flatten()
        except RecursionError:
            return o.exclude("deep-nesting(K5)")
        if flat != case["data"]:
            o.violate("flatten:undecoded-scan-changed", {"data": case["data"], "got": flat})
            return o
    if not _precondition(root):
        return o.exclude("tree-violates-precondition(K1/K2)")
    try:
        got = root.flatten()
        stats = {"skipped_overlap": 0, "left_alone": 0, "substituted": 0, "quoted": 0}
        exp = ref_flatten(root, stats)
    except RecursionError:
        return o.exclude("deep-nesting(K5)")
    if got != exp:
        o.violate("flatten:scan-differs", {"data": case["data"], "got": got, "expected": exp})
    # premise of the identity clause: no node's value differs (byte for byte) from the text it covers
    any_differs = any(n.value != p.value[n.start : n.end] for n, p, _ in an.nodes)
    if not any_differs:
        o.label("nothing-decoded")
        if got != case["data"]:
            o.violate("flatten:undecoded-scan-changed", {"data": case["data"], "got": got})
        o.nontrivial = bool(root.children)
    else:
        o.nontrivial = stats["substituted"] > 0
    for k, v in stats.items():
        if v:
            o.label("scan." + k.replace("_", "-"))
    return o


def undecoded_docs():
    """documents made of plain indicators only (nothing decodable): flatten must be the identity"""
    frag = st.one_of(S.frag_net(), S.frag_path(), S.frag_straddle(), S.frag_straddle(), S.frag_nested_kw(), S.frag_nested_kw(), st.sampled_from(S.KEYWORDS), S.neutral(1, 3), st.sampled_from([b"CreateObject(x)", b"cmd /c dir", b"(", b")", b"'", b'"']))
    return st.lists(st.tuples(frag, st.sampled_from([b" ", b"\n", b"; "])).map(b"".join), min_size=1, max_size=6).map(b"".join)


def scan_cases():
    return st.fixed_dictionaries({"data": st.one_of(S.documents(heavy=False), S.nested_docs(), undecoded_docs(), undecoded_docs()), "depth": st.sampled_from([1, 2, 10, 10])})


def units(tier):
    q = tier == "quick"
    return [
        Unit("trees", "hyp", check=check_tree, strategy=tree_cases, budget=60000 if q else 1000000),
        Unit("identity", "hyp", check=check_identity, strategy=identity_cases, budget=20000 if q else 300000),
        Unit("scans", "hyp", check=check_scan, strategy=scan_cases, budget=16000 if q else 300000),
    ]
