"""C03 - The result is a well-formed tree over the input with in-bounds spans."""
from __future__ import annotations

from ..invariants import c03
from ..unit import Outcome, Unit
from . import _engine_common as E

ID = "C03"
RULE = (
    "case = (document, depth limit) scanned with the shipped registry through the recording wrapper: grammar-directed token "
    "soups (recursively wrapped / encoded fragments of every decoder's language, PE images, byte arrays), flat edge-token "
    "soups, the directed context>decoded>raw family, and synthetic table registries. Every node of every tree is checked. "
    "Non-trivial = the tree has at least two levels or contains decoder-supplied sub-structure; distinct by case hash."
)
ASSUMPTIONS = [
    "known findings K1/K2 (test-pinned spans produced by find_powershell_strings) are triaged by root-cause key; every other out-of-bounds span is a violation",
    "scans that raise or exceed 5 s are excluded and counted (C01 decides totality)",
]


def _check(an, o):
    if an is None:
        return o
    for key, detail in c03(an):
        o.violate(key, detail)
    height2 = any(d >= 2 for _, _, d in an.nodes)
    supplied = bool(an.supplied_by)
    o.nontrivial = height2 or supplied
    if height2:
        o.label("height>=2")
    if supplied:
        o.label("decoder-supplied-substructure")
    if an.nodes:
        o.label("has-nodes")
    return o


def check_doc(case) -> Outcome:
    o = Outcome()
    return _check(E.analyse_doc(case, o), o)


def check_table(case) -> Outcome:
    o = Outcome()
    return _check(E.analyse_table(case, o), o)


def units(tier):
    q = tier == "quick"
    return [
        Unit("docs", "hyp", check=check_doc, strategy=E.doc_cases, budget=24000 if q else 400000),
        Unit("nested", "hyp", check=check_doc, strategy=E.nested_cases, budget=8000 if q else 100000),
        Unit("tokens", "hyp", check=check_doc, strategy=E.token_cases, budget=12000 if q else 200000),
        Unit("tables", "hyp", check=check_table, strategy=E.table_cases, budget=12000 if q else 200000),
    ]
