"""C14 - Character-escape decodings (XML refs, chr(), unescape(), UTF-16) are exact."""
from __future__ import annotations

import re

from hypothesis import strategies as st

from .. import encoders as X
from .. import netref as R
from .. import strategies as S
from ..observe import CaseTimeout, guarded, locate, walk_iter
from ..unit import Outcome, Unit

ID = "C14"
RULE = (
    "converse cases: byte sequences over all 256 values spelled as runs of >= 5 XML numeric references in mixed spellings "
    "(decimal, zero-padded decimal, x/X two-digit hex) and near-misses (runs of 4, values 256-300, three hex digits); "
    "chr/chrw/chrb(n) in all letter cases for code points 0..99999 incl. surrogates, zero padding and 6-digit numbers; "
    "unescape('...') arguments mixing valid, malformed and mixed-case escapes and non-ASCII bytes; UTF-16LE runs of 7-40 "
    "allowed Latin-1 characters (runs of 6 and runs containing an excluded control character as near-misses; two runs joined by "
    "a UTF-16 NUL) - embedded in neutral text; the node must have exactly the expression's span, the documented type / label "
    "and the value known by construction. Forward: every node labelled unescape.xml / function.chr / function.unescape / "
    "codec.uft-16 in generated token-soup scans is re-derived from the text it covers with own decoders. Non-trivial = every "
    "converse case except the plain-ASCII ones / forward case with at least one labelled node."
)
ASSUMPTIONS = [
    "an enclosing decoded result from another decoder counts as shadowed, not failed",
    "unescape() with an empty argument yields no node (empty results are never kept)",
]

_md = None


def scanner():
    global _md
    if _md is None:
        from multidecoder.multidecoder import Multidecoder

        _md = Multidecoder()
    return _md


PRE = [b"", b"lorem ", b"lorem ipsum; ", b"x = ", b"quux\n"]
SUF = [b"", b" dolor", b"; amet", b"\nzzyzx"]


def embed_st():
    return st.tuples(st.sampled_from(PRE), st.sampled_from(SUF))


def _scan(text, o):
    try:
        return guarded(5.0, scanner().scan, text, 1)
    except CaseTimeout:
        o.exclude("slow-scan")
        return None
    except Exception as e:  # totality is C01's business; here it must not become a harness error
        o.exclude("scan-raised:" + type(e).__name__ + " (C01's business)")
        return None


# ---- XML references --------------------------------------------------------------------------------------
def xml_cases():
    ref = st.tuples(st.integers(0, 255), st.integers(0, 4))
    return st.fixed_dictionaries({"refs": st.lists(ref, min_size=3, max_size=24), "bad": st.sampled_from(["none", "none", "none", "256+", "hex3", "nosemi"]), "embed": embed_st()})


XML_FORMS = [b"&#%d;", b"&#x%02x;", b"&#X%02X;", b"&#%03d;", b"&#x%02X;"]


def check_xml(case) -> Outcome:
    o = Outcome()
    refs = case["refs"]
    blob = b"".join(XML_FORMS[f] % c for c, f in refs)
    payload = bytes(c for c, _ in refs)
    bad = case["bad"]
    if bad == "256+":
        blob = b"&#%d;" % (256 + refs[0][0] % 44) + blob
    elif bad == "hex3":
        blob = b"&#x%03x;" % refs[0][0] + blob
    elif bad == "nosemi":
        blob = b"&#%d" % refs[0][0] + b" " + blob
    pre, suf = case["embed"]
    text = pre + blob + suf
    root = _scan(text, o)
    if root is None:
        return o
    # the valid run is the last len(refs) references
    run = b"".join(XML_FORMS[f] % c for c, f in refs)
    a = len(text) - len(suf) - len(run)
    b = a + len(run)
    if len(refs) >= 5:
        st_, info = locate(root, a, b, "", "unescape.xml", payload)
        if st_ == "missing":
            o.violate("xml:run-not-decoded-exactly" + ("" if bad == "none" else ":after-" + bad), {"text": text, "span": [a, b], "payload": payload, "nodes": info})
        elif st_ == "shadowed":
            o.exclude("shadowed")
        o.label("xml:run>=5")
    else:
        got = [n for n, _, _ in walk_iter(root) if n.obfuscation == "unescape.xml"]
        if got:
            o.violate("xml:run-shorter-than-5-accepted", {"text": text, "nodes": [(n.start, n.end) for n in got]})
        o.label("xml:near-miss<5")
    o.nontrivial = True
    if bad != "none":
        o.label("xml:prefixed-by-" + bad)
    return o


# ---- chr --------------------------------------------------------------------------------------------------
def chr_cases():
    n = st.one_of(st.integers(0, 99999), st.integers(0, 300), st.sampled_from([0, 127, 128, 255, 256, 2047, 2048, 55295, 55296, 56000, 57343, 57344, 65535, 65536, 99999, 100000, 123456]))
    return st.fixed_dictionaries({"n": n, "fn": st.sampled_from([b"chr", b"chrw", b"chrb", b"Chr", b"ChrW", b"CHRB", b"cHr"]), "zeros": st.integers(0, 4), "embed": embed_st()})


def check_chr(case) -> Outcome:
    o = Outcome()
    n = case["n"]
    digits = b"%d" % n
    blob = case["fn"] + b"(" + b"0" * case["zeros"] + digits + b")"
    pre, suf = case["embed"]
    text = pre + blob + suf
    a, b = len(pre), len(pre) + len(blob)
    root = _scan(text, o)
    if root is None:
        return o
    encodable = not (0xD800 <= n <= 0xDFFF) and n <= 0x10FFFF and len(digits) <= 5
    got = [x for x, _, _ in walk_iter(root) if x.obfuscation == "function.chr"]
    if encodable:
        st_, info = locate(root, a, b, "string", "function.chr", chr(n).encode("utf-8"))
        if st_ == "missing":
            o.violate("chr:not-decoded-exactly", {"text": text, "n": n, "nodes": info})
        elif st_ == "shadowed":
            o.exclude("shadowed")
        o.label("chr:encodable")
    else:
        if got:
            o.violate("chr:unencodable-or-6-digit-reported", {"text": text, "n": n, "nodes": [(x.start, x.end, x.value) for x in got]})
        o.label("chr:not-reportable")
    o.nontrivial = n >= 128 or case["zeros"] > 0 or not encodable
    return o


# ---- unescape ---------------------------------------------------------------------------------------------
UNESC_PIECES = [b"%41", b"%zz", b"%", b"a", b"%2f", b"%2F", b"%u0041", b"%4", b"\xe9", b"%E9", b"%e9", b" ", b"%00", b"%25", b"%%", b"xyz", b"%7e", b"\x00", b'"', b"(", b")", b"+", b"a+b", b"%2B", b"+%20+"]


def unescape_cases():
    return st.fixed_dictionaries({"pieces": st.lists(st.sampled_from(UNESC_PIECES), min_size=0, max_size=8), "embed": embed_st()})


def check_unescape(case) -> Outcome:
    o = Outcome()
    arg = b"".join(case["pieces"])
    blob = b"unescape('" + arg + b"')"
    pre, suf = case["embed"]
    text = pre + blob + suf
    a, b = len(pre), len(pre) + len(blob)
    root = _scan(text, o)
    if root is None:
        return o
    exp = R.pct_decode(arg)
    if exp:
        st_, info = locate(root, a, b, "string", "function.unescape", exp)
        if st_ == "missing":
            o.violate("unescape:not-decoded-exactly", {"text": text, "expected": exp, "nodes": info})
        elif st_ == "shadowed":
            o.exclude("shadowed")
    else:
        got = [x for x, _, _ in walk_iter(root) if x.obfuscation == "function.unescape"]
        if got:
            o.violate("unescape:empty-result-kept", {"text": text})
    o.nontrivial = b"%" in arg
    if re.search(rb"%(?![0-9a-fA-F]{2})", arg):
        o.label("unescape:malformed-escape")
    return o


# ---- UTF-16 ------------------------------------------------------------------------------------------------
ALLOWED = sorted(X.UTF16_OK)
EXCLUDED = [c for c in range(256) if c not in X.UTF16_OK and c != 0]


def utf16_cases():
    ch = st.one_of(st.sampled_from(ALLOWED), st.integers(0x20, 0x7E), st.integers(0xA0, 0xFF))
    return st.fixed_dictionaries(
        {
            "chars": st.lists(ch, min_size=5, max_size=40).map(bytes),
            "second": st.one_of(st.none(), st.none(), st.lists(ch, min_size=7, max_size=12).map(bytes)),
            "nul": st.sampled_from([b"\x00\x00", b"\x00\x00\x00\x00"]),
            "inject": st.one_of(st.none(), st.none(), st.none(), st.sampled_from(EXCLUDED)),
            "embed": st.tuples(st.sampled_from([b"", b"lorem ", b"x = ", b"quux\n", b"\x01\x02", b"\x00", b"\x00\x00\x00", b"\x00\x01 lorem ", b"\xff\xfe"]), st.sampled_from([b"", b" dolor", b"; amet", b"\x01", b"\x00\x00\x01"])),
        }
    )


def check_utf16(case) -> Outcome:
    o = Outcome()
    s = case["chars"]
    inj = case["inject"]
    if inj is not None and len(s) >= 6:
        # an excluded control character in the middle splits the run
        mid = len(s) // 2
        left, right = s[:mid], s[mid:]
        blob = X.utf16le(left) + bytes([inj, 0]) + X.utf16le(right)
        pre, suf = case["embed"]
        text = pre + blob + suf
        root = _scan(text, o)
        if root is None:
            return o
        a = len(pre)
        for part, off in ((left, 0), (right, 2 * len(left) + 2)):
            pa, pb = a + off, a + off + 2 * len(part)
            if len(part) >= 7:
                st_, info = locate(root, pa, pb, "", "codec.uft-16", part.decode("latin-1").encode("utf-8"))
                if st_ == "missing":
                    o.violate("utf16:run-next-to-excluded-control-not-decoded-exactly", {"text": text, "span": [pa, pb], "nodes": info})
        whole = [x for x, _, _ in walk_iter(root) if x.obfuscation == "codec.uft-16" and x.end - x.start == len(blob)]
        if whole:
            o.violate("utf16:excluded-control-accepted", {"text": text, "control": inj})
        o.label("utf16:split-by-control")
        o.nontrivial = True
        return o
    blob = X.utf16le(s)
    exp = s.decode("latin-1").encode("utf-8")
    if case["second"] is not None and len(s) >= 7:
        blob += case["nul"] + X.utf16le(case["second"])
        exp += (b"\x00" * (len(case["nul"]) // 2)) + case["second"].decode("latin-1").encode("utf-8")
        o.label("utf16:two-runs-joined-by-NUL")
    pre, suf = case["embed"]
    text = pre + blob + suf
    a, b = len(pre), len(pre) + len(blob)
    root = _scan(text, o)
    if root is None:
        return o
    if len(s) >= 7:
        st_, info = locate(root, a, b, "", "codec.uft-16", exp)
        if st_ == "missing":
            o.violate("utf16:run-not-decoded-exactly", {"text": text, "span": [a, b], "expected": exp, "nodes": info})
        elif st_ == "shadowed":
            o.exclude("shadowed")
        o.label("utf16:run>=7")
    else:
        got = [x for x, _, _ in walk_iter(root) if x.obfuscation == "codec.uft-16"]
        if got:
            o.violate("utf16:run-shorter-than-7-accepted", {"text": text})
        o.label("utf16:near-miss<7")
    o.nontrivial = any(c >= 0x80 for c in s) or len(s) in (6, 7, 8) or case["second"] is not None
    return o


# ---- forward ------------------------------------------------------------------------------------------------
def forward_node(n, o: Outcome) -> bool:
    ob, org = n.obfuscation, n.original
    if ob == "unescape.xml":
        vals = re.findall(rb"&#([xX][0-9a-fA-F]{2}|\d{1,3});", org)
        rebuilt = b"".join(b"&#" + v + b";" for v in vals)
        if rebuilt.lower() != org.lower() or len(vals) < 5:
            o.violate("fwd:xml:text-is-not-a-run-of>=5-references", {"original": org[:100]})
            return True
        try:
            exp = bytes(int(v[1:], 16) if v[:1] in b"xX" else int(v) for v in vals)
        except ValueError:
            exp = None
        if exp is None or n.value != exp:
            o.violate("fwd:xml:value", {"original": org[:100], "got": n.value[:40]})
        return True
    if ob == "function.chr":
        m = re.fullmatch(rb"(?i)chr[bw]?\((\d+)\)", org)
        if not m:
            o.violate("fwd:chr:text-is-not-a-chr-call", {"original": org[:60]})
            return True
        try:
            exp = chr(int(m.group(1))).encode("utf-8")
        except (ValueError, UnicodeEncodeError, OverflowError):
            exp = None
        if exp is None or n.value != exp or n.type != "string":
            o.violate("fwd:chr:value", {"original": org[:60], "got": n.value})
        return True
    if ob == "function.unescape":
        m = re.fullmatch(rb"unescape\('([^']*)'\)", org, re.S)
        if not m or n.value != R.pct_decode(m.group(1)) or n.type != "string":
            o.violate("fwd:unescape:value", {"original": org[:100], "got": n.value[:60]})
        return True
    if ob == "codec.uft-16":
        if len(org) % 2 or any(org[i + 1] != 0 for i in range(0, len(org) - 1, 2)):
            o.violate("fwd:utf16:text-is-not-utf16le-latin1", {"original": org[:60]})
            return True
        exp = bytes(org[i] for i in range(0, len(org), 2)).decode("latin-1").encode("utf-8")
        if n.value != exp:
            o.violate("fwd:utf16:value", {"original": org[:60], "got": n.value[:60]})
        return True
    return False


def fwd_docs():
    frag = st.one_of(S.frag_xml(), S.frag_chr(), S.frag_unescape(), S.frag_utf16(), S.fragment(3), S.neutral(1, 2))
    return st.lists(st.tuples(frag, st.sampled_from([b" ", b"\n", b"; ", b"'", b"("])).map(b"".join), min_size=1, max_size=4).map(b"".join)


def fwd_cases():
    return st.fixed_dictionaries({"data": S.cached("c14.fwd", fwd_docs), "depth": st.sampled_from([1, 2, 10])})


def check_forward(case) -> Outcome:
    o = Outcome()
    try:
        root = guarded(5.0, scanner().scan, case["data"], case["depth"])
    except CaseTimeout:
        return o.exclude("slow-scan")
    except Exception as e:
        return o.exclude("scan-raised:" + type(e).__name__)
    cnt = 0
    for n, p, _ in walk_iter(root):
        if 0 <= n.start <= n.end <= len(p.value) and forward_node(n, o):
            cnt += 1
    o.nontrivial = cnt > 0
    return o


def units(tier):
    q = tier == "quick"
    return [
        Unit("xml", "hyp", check=check_xml, strategy=xml_cases, budget=14000 if q else 300000),
        Unit("chr", "hyp", check=check_chr, strategy=chr_cases, budget=14000 if q else 300000),
        Unit("unescape", "hyp", check=check_unescape, strategy=unescape_cases, budget=12000 if q else 200000),
        Unit("utf16", "hyp", check=check_utf16, strategy=utf16_cases, budget=14000 if q else 300000),
        Unit("forward", "hyp", check=check_forward, strategy=fwd_cases, budget=10000 if q else 200000),
    ]
