"""C09 - Results are reproducible: a function of input, depth and configuration only."""
from __future__ import annotations

import json
import os
import shutil
import subprocess
import sys
import tempfile
import threading

from hypothesis import HealthCheck, Phase, given, seed as hseed, settings
from hypothesis import strategies as st
from hypothesis.stateful import RuleBasedStateMachine, invariant, precondition, rule, run_state_machine_as_test

from .. import REPO_SRC, VERIF_DIR, die_with_parent
from .. import strategies as S
from ..unit import Outcome, Unit

ID = "C09"
QUICK_SCALE = 1.0  # this check already takes 75-95 s in the quick tier
RULE = (
    "documents are tie-rich by construction: neutral text + keywords that the shipped keyword directory lists in several "
    "files or in several letter-case variants (found by reading the directory) + token-soup fragments. Dimensions: "
    "(1) fresh interpreters under PYTHONHASHSEED in {0,1,2,3,<2 drawn>} (library JSON, CLI stdout, and registries built with an include list of decoder modules); (2) registries built "
    "while directory enumeration (os.scandir / os.listdir / os.walk) returns entries in a Hypothesis-drawn permutation, on the "
    "shipped and on generated keyword directories; (3) a rule-based state machine over histories: scan on a shared scanner, "
    "scan on a fresh scanner, rebuild the registry, scan through the CLI - every result must equal the result of a fresh interpreter "
    "for the same (document, depth) and the first result in the history; documents come with letter-case variants; (4) 8 threads sharing one scanner, each scanning generated documents plus long caret / parenthesis / concatenation / PowerShell texts built from its own word, with a 1 microsecond switch interval, against the sequential result (sampled schedules). Non-trivial = the document's tree contains a tie "
    "(two hits with equal span in one child list / parent-child pair); distinct by document hash."
)
ASSUMPTIONS = [
    "thread interleavings are sampled by the OS scheduler, not enumerated: the thread dimension is a smoke test",
    "hash seeds are sampled (6 values per corpus), not enumerated",
    "directory enumeration order is simulated by permuting the results of os.scandir/os.listdir/os.walk inside the process",
]


# ---- tie-rich documents -------------------------------------------------------------------------------
_ties = None


def tie_keywords():
    """keywords listed in >= 2 shipped keyword files, or in >= 2 case variants: read from the directory itself"""
    global _ties
    if _ties is None:
        import multidecoder

        d = os.path.join(os.path.dirname(multidecoder.__file__), "keywords")
        seen = {}
        for sub, dirs, files in os.walk(d):
            dirs.sort()
            for fn in sorted(files):
                with open(os.path.join(sub, fn), "rb") as f:
                    for w in set(f.read().splitlines()):
                        if w:
                            seen.setdefault(w.lower(), set()).add((fn, w))
        multi = sorted(k for k, v in seen.items() if len(v) >= 2)
        variants = sorted(w for k, v in seen.items() if len({x[1] for x in v}) >= 2 for (_, w) in v)
        _ties = (multi or [b"strlen"], variants or [b"strlen"])
    return _ties


def tie_docs():
    multi, variants = tie_keywords()
    kw = st.one_of(st.sampled_from(multi), st.sampled_from(variants), st.sampled_from(variants).map(bytes.swapcase), st.sampled_from(multi).map(bytes.upper))
    cross = st.sampled_from([b"cmd.exe", b"C:\\Windows\\System32\\cmd.exe", b"powershell.exe", b"\\\\files.example.com\\share\\setup.exe", b"http://1.2.3.4/a.exe"])  # equal-span hits from different decoder modules
    piece = st.one_of(kw, kw, S.neutral(1, 2), S.fragment(2), cross)
    return st.lists(st.tuples(piece, st.sampled_from([b" ", b"\n", b"; ", b"("])).map(b"".join), min_size=1, max_size=6).map(b"".join)


def has_tie(tree_json: str) -> bool:
    def rec(n):
        spans = [(c["start"], c["end"]) for c in n["children"]]
        if len(set(spans)) < len(spans):
            return True
        for c in n["children"]:
            if any((g["start"], g["end"]) == (0, c["end"] - c["start"]) for g in c["children"]):
                return True
            if rec(c):
                return True
        return False

    try:
        return rec(json.loads(tree_json))
    except RecursionError:
        return False


def draw_corpus(strategy, n, seed):
    docs = []

    @hseed(seed)
    @settings(max_examples=n, database=None, deadline=None, suppress_health_check=list(HealthCheck), phases=[Phase.generate])
    @given(strategy)
    def collect(d):
        docs.append(d)

    collect()
    uniq = []
    for d in docs:
        if d not in uniq:
            uniq.append(d)
    return uniq


def _scratch():
    base = os.path.join(VERIF_DIR, ".scratch")
    os.makedirs(base, exist_ok=True)
    return base


# ---- (1) hash seeds -----------------------------------------------------------------------------------
def scan_in_subprocess(docs, hashseed, cli=False, include=None):
    d = tempfile.mkdtemp(prefix="vf-c09-", dir=_scratch())
    try:
        p = os.path.join(d, "corpus.json")
        with open(p, "w") as f:
            json.dump({"include": include, "docs": [{"data": x["data"].hex(), "depth": x.get("depth")} for x in docs]}, f)
        env = dict(os.environ, PYTHONHASHSEED=str(hashseed))
        r = subprocess.run([sys.executable, "-m", "vf.scanjson", p] + (["cli"] if cli else []), cwd=VERIF_DIR, env=env, capture_output=True, text=True, timeout=1800, preexec_fn=die_with_parent)
        if r.returncode != 0:
            raise RuntimeError("scanjson failed under PYTHONHASHSEED=%s: %s" % (hashseed, r.stderr[-800:]))
        return json.loads(r.stdout.strip().splitlines()[-1])
    finally:
        shutil.rmtree(d, ignore_errors=True)


def check_hashseed(case) -> Outcome:
    """replayable: one document under two hash seeds"""
    o = Outcome()
    docs = [{"data": case["data"], "depth": case.get("depth")}]
    cli = bool(case.get("cli"))
    a = scan_in_subprocess(docs, case["seeds"][0], cli, case.get("include"))[0]
    b = scan_in_subprocess(docs, case["seeds"][1], cli, case.get("include"))[0]
    if a != b:
        o.violate("hashseed:" + ("cli-output" if cli else "tree") + "-differs", {"data": case["data"], "seeds": case["seeds"]})
    o.nontrivial = (not cli) and has_tie(a)
    return o


def decoder_modules():
    import multidecoder.decoders

    d = list(multidecoder.decoders.__path__)[0]
    return sorted(fn[:-3] for fn in os.listdir(d) if fn.endswith(".py") and fn != "__init__.py")


def run_hashseeds(ctx, shard, nshards, seed, budget):
    per = max(4, budget // nshards)
    docs = [{"data": d, "depth": None} for d in draw_corpus(tie_docs(), per, seed)]
    seeds = [0, 1, 2, 3, 1000 + seed % 100000, 77777 + 13 * shard]
    # configurations: the default registry, and registries built with an include list (the order in which the selected
    # modules are registered must not depend on the hash seed either); the include list is a deterministic function of
    # (seed, shard) so that a run is reproducible
    mods = decoder_modules()
    k = 2 + (seed + shard) % 4
    inc = [mods[(shard * 5 + seed + 3 * i) % len(mods)] for i in range(k)] + ["filename", "shell", "path"][: 1 + shard % 3]
    inc = sorted(set(inc), key=inc.index)
    for cli, include in ((False, None), (True, None), (False, inc)):
        sub = docs if not cli else docs[: max(2, len(docs) // 4)]
        base = scan_in_subprocess(sub, seeds[0], cli, include)
        for hs in seeds[1:]:
            other = scan_in_subprocess(sub, hs, cli, include)
            for doc, a, b in zip(sub, base, other):
                o = Outcome()
                o.nontrivial = (not cli) and has_tie(a)
                o.label("hashseed:cli" if cli else ("hashseed:library:include-list" if include else "hashseed:library"))
                if a != b:
                    o.violate("hashseed:" + ("cli-output" if cli else "tree") + "-differs" + (":include-list" if include else ""), {"data": doc["data"], "seeds": [seeds[0], hs], "include": include})
                ctx.record({"data": doc["data"], "depth": None, "seeds": [seeds[0], hs], "cli": cli, "include": include}, o)


# ---- (2) directory enumeration order ---------------------------------------------------------------------
class PermutedFS:
    """context manager: os.scandir / os.listdir / os.walk return entries permuted by the given key"""

    def __init__(self, perm_key: int):
        self.k = perm_key

    def _perm(self, items, name=lambda x: x):
        import hashlib

        return sorted(items, key=lambda it: hashlib.sha1(("%d:" % self.k).encode() + os.fsencode(name(it))).digest())

    def __enter__(self):
        self.orig = (os.scandir, os.listdir, os.walk)
        o_scandir, o_listdir, o_walk = self.orig
        me = self

        class _It:
            def __init__(self, entries):
                self.entries = list(entries)
                self.i = 0

            def __iter__(self):
                return self

            def __next__(self):
                if self.i >= len(self.entries):
                    raise StopIteration
                e = self.entries[self.i]
                self.i += 1
                return e

            def __enter__(self):
                return self

            def __exit__(self, *a):
                return False

            def close(self):
                pass

        def scandir(path="."):
            with o_scandir(path) as it:
                entries = list(it)
            return _It(me._perm(entries, lambda e: e.name))

        def listdir(path="."):
            return me._perm(o_listdir(path))

        def walk(top, topdown=True, onerror=None, followlinks=False):
            for sub, dirs, files in o_walk(top, topdown, onerror, followlinks):
                dirs[:] = me._perm(dirs)
                files = me._perm(files)
                yield sub, dirs, files

        os.scandir, os.listdir, os.walk = scandir, listdir, walk
        return self

    def __exit__(self, *a):
        os.scandir, os.listdir, os.walk = self.orig
        return False


def dir_cases():
    return st.fixed_dictionaries({"perm": st.integers(1, 10**6), "docs": st.lists(tie_docs(), min_size=1, max_size=4), "custom": st.none()})


def customdir_cases():
    words = st.lists(st.sampled_from([b"lorem", b"Lorem", b"LOREM", b"ipsum", b"dolor", b"quux", b"zzyzx", b"strlen"]), min_size=1, max_size=4, unique=True)
    files = st.lists(st.tuples(st.sampled_from(["a.list", "b.list", "api", "z"]), st.sampled_from(["", "s1", "s2", "s1/t"]), words), min_size=2, max_size=5, unique_by=lambda t: (t[0], t[1]))
    return st.fixed_dictionaries({"perm": st.integers(1, 10**6), "docs": st.lists(tie_docs(), min_size=1, max_size=3), "custom": files})


_base_md = {}


def check_dirorder(case) -> Outcome:
    from multidecoder.json_conversion import tree_to_json
    from multidecoder.multidecoder import Multidecoder
    from multidecoder.registry import build_registry

    o = Outcome()
    d = None
    try:
        if case["custom"] is not None:
            d = tempfile.mkdtemp(prefix="vf-c09kw-", dir="/dev/shm" if os.path.isdir("/dev/shm") else _scratch())
            for name, sub, words in case["custom"]:
                p = os.path.join(d, sub) if sub else d
                os.makedirs(p, exist_ok=True)
                with open(os.path.join(p, name), "wb") as f:
                    f.write(b"\n".join(words) + b"\n")
            base = Multidecoder(build_registry(d, include=["__none__"]))
            with PermutedFS(case["perm"]):
                other = Multidecoder(build_registry(d, include=["__none__"]))
        else:
            if "md" not in _base_md:
                _base_md["md"] = Multidecoder(build_registry())
            base = _base_md["md"]
            with PermutedFS(case["perm"]):
                other = Multidecoder(build_registry())
        for doc in case["docs"]:
            doc_scan = doc + (b" lorem Lorem quux" if case["custom"] is not None else b"")
            a = tree_to_json(base.scan(doc_scan))
            b = tree_to_json(other.scan(doc_scan))
            if a != b:
                o.violate("dirorder:tree-differs" + (":custom-directory" if case["custom"] is not None else ""), {"data": doc_scan, "perm": case["perm"]})
            if has_tie(a):
                o.nontrivial = True
    finally:
        if d:
            shutil.rmtree(d, ignore_errors=True)
    o.label("dirorder:custom" if case["custom"] is not None else "dirorder:shipped")
    return o


# ---- (3) histories -------------------------------------------------------------------------------------
_baseline_cache: dict = {}


def baseline(doc: bytes, k, cli=False):
    """result of scanning doc alone in a fresh interpreter (pristine module state): the model of the history machine"""
    key = (doc, k, cli)
    if key not in _baseline_cache:
        _baseline_cache[key] = scan_in_subprocess([{"data": doc, "depth": k}], 0, cli)[0]
    return _baseline_cache[key]


def replay_history(steps):
    """re-executes a recorded history without Hypothesis; every result must equal the fresh-interpreter baseline for the
    same (document, depth) and the first result seen in this history. Returns an Outcome."""
    from multidecoder.json_conversion import tree_to_json
    from multidecoder.multidecoder import Multidecoder
    from multidecoder.registry import build_registry

    from .c20 import run_main

    o = Outcome()
    shared = Multidecoder()
    model = {}
    for st_ in steps:
        op, doc, k = st_["op"], st_.get("doc", b""), st_.get("k")
        if op == "rebuild":
            shared.decoders = build_registry()
            continue
        if op == "cli":
            out, _ = run_main([], doc)
            out = out.decode("utf-8", "replace")
            if out != baseline(doc, None, cli=True):
                o.violate("history:cli-output-differs-from-fresh-process", {"doc": doc, "steps": len(steps)})
            continue
        md = shared if op == "shared" else Multidecoder()
        t = tree_to_json(md.scan(doc) if k is None else md.scan(doc, k))
        key = (doc, k)
        if key in model and model[key] != t:
            o.violate("history:result-changed:" + op, {"doc": doc, "k": k, "steps": len(steps)})
        model.setdefault(key, t)
        if t != baseline(doc, k):
            o.violate("history:result-differs-from-fresh-process:" + op, {"doc": doc, "k": k, "steps": len(steps)})
        if has_tie(t):
            o.nontrivial = True
    return o


def check_history(case) -> Outcome:
    return replay_history(case["steps"])


def case_variants(d: bytes):
    """near variants of a document (letter case per word / per dotted label): caches keyed too coarsely confuse them"""
    import re as _re

    def per_label(fn):
        return _re.sub(rb"[A-Za-z][A-Za-z0-9-]*", lambda m: fn(m.group()), d)

    vs = [d, d.lower(), d.upper(), d.swapcase(), per_label(lambda w: w[:1].upper() + w[1:].lower())]
    # capitalise every second word/label only
    cnt = [0]

    def alt(w):
        cnt[0] += 1
        return w[:1].upper() + w[1:].lower() if cnt[0] % 2 == 0 else w.lower()

    vs.append(per_label(alt))
    cnt[0] = 1
    vs.append(per_label(alt))  # the other parity
    out = []
    for v in vs:
        if v not in out:
            out.append(v)
    return out


def history_pool(seed):
    dotted = st.tuples(st.lists(st.sampled_from([b"cdn", b"www", b"mail", b"evil-site", b"contoso-updates", b"files"]), min_size=1, max_size=3).map(b".".join), st.sampled_from([b"com", b"org", b"net"])).map(lambda t: b"ping " + t[0] + b"." + t[1] + b" now")
    base = draw_corpus(st.one_of(tie_docs(), tie_docs(), dotted), 8, seed + 17)
    # percent-escaped URLs (every unreserved mark, reserved characters, letters, in any order and repetition): state kept
    # between normalisations (a consumed iterator, a table filled on first use) shows as a history-dependent value
    piece = st.sampled_from([b"%7E", b"%2D", b"%2E", b"%5F", b"%2d", b"%7e", b"%41", b"%20", b"%2F", b"%3A", b"a", b"/", b"-", b"~"])
    esc = st.tuples(st.sampled_from([b"GET ", b"", b"see "]), st.sampled_from([b"http://example.com/", b"https://cdn.example.org/x/", b"ftp://10.1.2.3/"]), st.lists(piece, min_size=1, max_size=6).map(b"".join), st.sampled_from([b"", b" HTTP/1.1", b" now"])).map(b"".join)
    for d in draw_corpus(st.one_of(esc, esc, S.documents(heavy=False)), 5, seed + 29):
        if d not in base:
            base.append(d)
    pool = []
    for d in base:
        pool.append(case_variants(d))
    return pool


def run_histories(ctx, shard, nshards, seed, budget):
    pool = history_pool(seed)

    def pick(i, v):
        vs = pool[i % len(pool)]
        return vs[v % len(vs)]

    class Machine(RuleBasedStateMachine):
        def __init__(self):
            super().__init__()
            self.steps = []

        @rule(i=st.integers(0, len(pool) - 1), v=st.integers(0, 6), k=st.sampled_from([None, None, 1, 2, 10]))
        def scan_shared(self, i, v, k):
            self.steps.append({"op": "shared", "doc": pick(i, v), "k": k})

        @rule(i=st.integers(0, len(pool) - 1), v=st.integers(0, 6), k=st.sampled_from([None, 2]))
        def scan_fresh(self, i, v, k):
            self.steps.append({"op": "fresh", "doc": pick(i, v), "k": k})

        @rule()
        def rebuild_registry(self):
            self.steps.append({"op": "rebuild"})

        @rule(i=st.integers(0, len(pool) - 1), v=st.integers(0, 6))
        def scan_via_cli(self, i, v):
            self.steps.append({"op": "cli", "doc": pick(i, v)})

        def teardown(self):
            # the whole history is executed (and checked) once it is complete, so that it replays without Hypothesis
            if not self.steps:
                return
            out = replay_history(self.steps)
            out.label("history:steps=%d" % min(len(self.steps) // 10 * 10, 50))
            unknown = ctx.record({"steps": self.steps}, out)
            if unknown:
                raise AssertionError("history violated: " + unknown[0])

    n = max(1, budget // nshards)
    try:
        run_state_machine_as_test(
            hseed(seed)(Machine),
            settings=settings(max_examples=n, stateful_step_count=25, database=None, deadline=None, suppress_health_check=list(HealthCheck), report_multiple_bugs=False, phases=[Phase.generate, Phase.shrink], print_blob=False),
        )
    except AssertionError:
        pass  # recorded through ctx


# ---- (4) threads ------------------------------------------------------------------------------------------
def _long_docs(words, n):
    """documents that keep the pure-Python loops of the decoders busy for a while (caret stripping, parenthesis and brace
    scans, byte arrays, concatenation), each built from its own word so that cross-talk between threads is visible"""
    docs = []
    for i, w in enumerate(words):
        unit = b" ".join(b"^".join(bytes([c]) for c in w + b"%d" % j) for j in range(n))
        docs.append(b"cmd /c " + unit + b"\x00")
        docs.append(b"CreateObject(" + b"(" * 40 + b" ".join([w] * n) + b")" * 40 + b")")
        docs.append(b" & ".join(b'"' + w + b"%d" % j + b'"' for j in range(n)))
        docs.append(b"x = '" + b"p^owershell -nop -w hidden " + b" ".join([w] * n) + b"'")
    return docs


def check_threads(case) -> Outcome:
    from multidecoder.json_conversion import tree_to_json
    from multidecoder.multidecoder import Multidecoder
    from multidecoder.registry import get_analyzers

    o = Outcome()
    docs = list(case["docs"]) + _long_docs(case["words"], case["n"])
    # analyzers only: without the 5000 keyword searches (C code) the threads spend their time inside the decoders' Python loops
    md = Multidecoder(get_analyzers()) if case["analyzers_only"] else Multidecoder()
    seq = [tree_to_json(md.scan(d)) for d in docs]
    old = sys.getswitchinterval()
    sys.setswitchinterval(1e-6)
    nthreads = 8
    res = [None] * nthreads
    errs = []

    def work(i):
        try:
            order = list(range(len(docs)))
            order = order[i % len(order) :] + order[: i % len(order)]
            if i % 2:
                order.reverse()
            m = {}
            for _ in range(case["rounds"]):
                for j in order:
                    t = tree_to_json(md.scan(docs[j]))
                    if j in m and m[j] != t:
                        m[j] = None
                    elif j not in m:
                        m[j] = t
            res[i] = [m[j] for j in range(len(docs))]
        except Exception as e:  # pragma: no cover
            errs.append(repr(e))

    try:
        ts = [threading.Thread(target=work, args=(i,)) for i in range(nthreads)]
        [t.start() for t in ts]
        [t.join() for t in ts]
    finally:
        sys.setswitchinterval(old)
    if errs:
        o.violate("threads:exception", {"errors": errs[:3]})
    for i, r in enumerate(res):
        if r is not None and r != seq:
            bad = [j for j in range(len(docs)) if r[j] != seq[j]]
            o.violate("threads:tree-differs-from-sequential", {"thread": i, "documents": [docs[j][:60] for j in bad[:3]]})
            break
    o.nontrivial = True
    o.label("threads:analyzers-only" if case["analyzers_only"] else "threads:default-registry")
    return o


def thread_cases():
    words = st.lists(st.sampled_from([b"alpha", b"bravo", b"charlie", b"delta", b"echo", b"foxtrot"]), min_size=2, max_size=4, unique=True)
    return st.fixed_dictionaries({"docs": st.lists(tie_docs(), min_size=2, max_size=6), "words": words, "n": st.sampled_from([40, 150, 400]), "rounds": st.sampled_from([1, 2]), "analyzers_only": st.sampled_from([True, True, False])})


def units(tier):
    q = tier == "quick"
    return [
        Unit("hashseeds", "custom", check=check_hashseed, run=run_hashseeds, budget=960 if q else 8000, shards=8),
        Unit("dirorder", "hyp", check=check_dirorder, strategy=dir_cases, budget=480 if q else 4000),
        Unit("customdir", "hyp", check=check_dirorder, strategy=customdir_cases, budget=4000 if q else 40000),
        Unit("histories", "custom", check=check_history, run=run_histories, budget=480 if q else 4800, shards=8),
        Unit("threads", "hyp", check=check_threads, strategy=thread_cases, budget=96 if q else 800, shards=4),
    ]
