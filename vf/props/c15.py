"""C15 - String concatenation, reversal and replacement are evaluated exactly."""
from __future__ import annotations

import re

from hypothesis import strategies as st

from .. import encoders as X
from ..observe import CaseTimeout, guarded, locate, walk_iter
from ..unit import Outcome, Unit

ID = "C15"
RULE = (
    "cases: literals over a printable alphabet without quote characters (letters, digits, space and punctuation incl. + & _ "
    "and regex metacharacters), excluding literals that are a bare joining operator; chains of 2-6 literals with every "
    "separator spelling (+, &, &amp; with optional whitespace, VB line continuation '_' CRLF), single / double quotes mixed; "
    "reverse( / reversed( / StrReverse( in several letter cases with optional inner whitespace; the four replace dialects with "
    "patterns that occur 0..n times, overlap themselves, equal the whole literal, and empty / non-empty replacements; each "
    "embedded in neutral text. Oracle: Python's own +, [::-1] and a hand-written left-to-right replace; the node must cover "
    "exactly the whole expression and carry the dialect's type and label; an expression whose result is empty yields no node. "
    "Non-trivial = chain of >= 3 literals or a separator with line continuation / reverse of a literal with >= 2 distinct "
    "characters / replace whose pattern occurs at least once; distinct by case hash."
)
ASSUMPTIONS = [
    "literals contain no quote characters (', \", `) and no backslash, as in the statement",
    "JavaScript regex replace: the pattern is metacharacter-free and every occurrence is replaced, as the statement says",
    "an enclosing decoded result from another decoder counts as shadowed, not failed",
]

_md = None


def scanner():
    global _md
    if _md is None:
        from multidecoder.multidecoder import Multidecoder

        _md = Multidecoder()
    return _md


ALPHA = list(b"abcdefghijklmnopqrstuvwxyzABCXYZ0123456789 .,:;/-_=()[]{}<>!?@#$%*~|+&^")
# (the last three leave an unbalanced quote character in front of the expression: where an expression starts must not depend
# on how the quotes before it pair up)
PRE = [b"", b"lorem ", b"x = ", b"quux\n", b"call ", b"don't ", b'say " ', b"' "]
SUF = [b"", b" dolor", b";", b"\nzzyzx"]
# a literal chain inside a longer expression: a further joining operator with an operand that is not a literal follows / precedes
# it (the chain of literals is still the whole maximal run of literals)
CPRE = [b"path + ", b"name & ", b"f(x) &amp; "]
CSUF = [b" + path", b"&name", b" & _\r\n tail", b"+$env:TEMP", b" &amp; A1", b" + "]


def lit(lo=0, hi=8, alpha=ALPHA):
    return st.lists(st.sampled_from(alpha), min_size=lo, max_size=hi).map(bytes).filter(lambda c: not X.OPERATOR_LIT.fullmatch(c) or c == b"")


def quote():
    return st.sampled_from([b"'", b'"'])


def ref_replace(x: bytes, a: bytes, b: bytes) -> bytes:
    """left-to-right, non-overlapping replacement of every occurrence of a (non-empty) in x"""
    if not a:
        return x
    out = bytearray()
    i = 0
    while i < len(x):
        if x[i : i + len(a)] == a:
            out += b
            i += len(a)
        else:
            out.append(x[i])
            i += 1
    return bytes(out)


def with_decoy(case, blob, pre):
    """optionally put an earlier, differently-cased spelling of the same expression a few words before it: what is
    reported for the real expression must not depend on it (per-call caches keyed too coarsely confuse such neighbours)"""
    if case.get("decoy") and blob.swapcase() != blob:
        return blob.swapcase() + b" lorem ipsum " + pre
    return pre


def _scan(text, o):
    try:
        return guarded(5.0, scanner().scan, text, 1)
    except CaseTimeout:
        o.exclude("slow-scan")
        return None
    except Exception as e:  # totality is C01's business; here it must not become a harness error
        o.exclude("scan-raised:" + type(e).__name__ + " (C01's business)")
        return None


def _expect(o, root, text, a, b, typ, obf, value, key):
    if value == b"":
        got = [n for n, _, _ in walk_iter(root) if n.obfuscation == obf and n.type == typ]
        if got:
            o.violate(key + ":empty-result-kept", {"text": text})
        return
    st_, info = locate(root, a, b, typ, obf, value)
    if st_ == "missing":
        same = [n for n in info if (n[2], n[3]) == (a, b) and n[0] == typ and n[1] == obf]
        o.violate(key + (":value" if same else ":span-or-missing"), {"text": text, "span": [a, b], "expected": value, "nodes": info})
    elif st_ == "shadowed":
        o.exclude("shadowed by an enclosing decoded result")


# ---- concatenation ------------------------------------------------------------------------------------------
SEPS = [b"+", b" + ", b"&", b" & ", b" &amp; ", b"&amp;", b" & _\r\n  ", b"\t+\n", b" _\r\n& ", b"  +  "]


def concat_cases():
    return st.fixed_dictionaries({"parts": st.lists(st.tuples(lit(), quote()), min_size=2, max_size=6), "seps": st.lists(st.sampled_from(SEPS), min_size=5, max_size=5), "embed": st.tuples(st.sampled_from(PRE + CPRE), st.sampled_from(SUF + CSUF)), "decoy": st.sampled_from([False, False, True])})


def check_concat(case) -> Outcome:
    o = Outcome()
    blob = b""
    for j, (c, q) in enumerate(case["parts"]):
        if j:
            blob += case["seps"][j - 1]
        blob += q + c + q
    value = b"".join(c for c, _ in case["parts"])
    pre, suf = case["embed"]
    pre = with_decoy(case, blob, pre)
    text = pre + blob + suf
    a, b = len(pre), len(pre) + len(blob)
    root = _scan(text, o)
    if root is None:
        return o
    _expect(o, root, text, a, b, "string", "concatenation", value, "concat")
    o.nontrivial = len(case["parts"]) >= 3 or any(b"_" in s or b"amp" in s for s in case["seps"][: len(case["parts"]) - 1])
    if any(c == b"" for c, _ in case["parts"]):
        o.label("concat:empty-literal")
    if len({q for _, q in case["parts"]}) > 1:
        o.label("concat:mixed-quotes")
    o.label("concat:%d-literals" % len(case["parts"]))
    return o


# ---- reversal ------------------------------------------------------------------------------------------------
REV = [(b"reverse(", "string", "reverse"), (b"reversed(", "string", "reverse"), (b"Reverse(", "string", "reverse"), (b"REVERSED( ", "string", "reverse"), (b"StrReverse(", "vba.string", "vba.reverse"), (b"strreverse(", "vba.string", "vba.reverse"), (b"STRREVERSE(  ", "vba.string", "vba.reverse")]


def reverse_cases():
    return st.fixed_dictionaries({"lit": lit(0, 12), "q": quote(), "fn": st.sampled_from(REV), "close": st.sampled_from([b")", b" )", b"\t)"]), "embed": st.tuples(st.sampled_from(PRE), st.sampled_from(SUF)), "decoy": st.sampled_from([False, False, True])})


def check_reverse(case) -> Outcome:
    o = Outcome()
    fn, typ, obf = case["fn"]
    c = case["lit"]
    blob = fn + case["q"] + c + case["q"] + case["close"]
    pre, suf = case["embed"]
    if fn.lower().startswith(b"reverse") and pre[-1:].isalnum():
        return o.exclude("no delimiter before the function name")
    pre = with_decoy(case, blob, pre)
    text = pre + blob + suf
    a, b = len(pre), len(pre) + len(blob)
    root = _scan(text, o)
    if root is None:
        return o
    _expect(o, root, text, a, b, typ, obf, c[::-1], "reverse:" + obf)
    o.nontrivial = len(set(c)) >= 2
    o.label("reverse:" + obf)
    return o


# ---- replacement ----------------------------------------------------------------------------------------------
def replace_cases():
    small = list(b"abXY01 .:/-_")
    x = st.lists(st.sampled_from(small), min_size=1, max_size=12).map(bytes)
    return st.fixed_dictionaries(
        {
            "x": x,
            "a_mode": st.sampled_from(["slice", "slice", "free", "whole", "double"]),
            "a_free": st.lists(st.sampled_from(small), min_size=1, max_size=3).map(bytes),
            "i": st.integers(0, 11),
            "n": st.integers(1, 3),
            "b": st.lists(st.sampled_from(small + list(b"Z")), min_size=0, max_size=4).map(bytes),
            "dialect": st.sampled_from(["method", "vba", "powershell", "jsregex"]),
            "q": st.lists(quote(), min_size=3, max_size=3),
            "ws": st.sampled_from([b"", b" ", b"  "]),
            "flags": st.sampled_from([b"", b"g", b"gi", b"gim", b"m"]),
            "fn_case": st.integers(0, 2),
            "embed": st.tuples(st.sampled_from(PRE), st.sampled_from(SUF)),
            "decoy": st.sampled_from([False, False, True]),
        }
    )


def check_replace(case) -> Outcome:
    o = Outcome()
    x = case["x"]
    mode = case["a_mode"]
    if mode == "slice":
        i = case["i"] % len(x)
        a_ = x[i : i + case["n"]]
    elif mode == "whole":
        a_ = x
    elif mode == "double":
        a_ = x[:1] * 2
    else:
        a_ = case["a_free"]
    b_ = case["b"]
    q1, q2, q3 = case["q"]
    ws = case["ws"]
    d = case["dialect"]
    if d == "method":
        fn = [b".replace(", b".Replace(", b".REPLACE("][case["fn_case"]]
        blob = q1 + x + q1 + fn + ws + q2 + a_ + q2 + ws + b"," + ws + q3 + b_ + q3 + ws + b")"
        typ, obf = "string", "replace"
    elif d == "vba":
        fn = [b"Replace(", b"replace(", b"REPLACE("][case["fn_case"]]
        blob = fn + ws + q1 + x + q1 + ws + b"," + ws + q2 + a_ + q2 + ws + b"," + ws + q3 + b_ + q3 + ws + b")"
        typ, obf = "vba.string", "vba.replace"
    elif d == "powershell":
        fn = [b"-replace", b"-Replace", b"-REPLACE"][case["fn_case"]]
        blob = q1 + x + q1 + ws + fn + ws + q2 + a_ + q2 + ws + b"," + ws + q3 + b_ + q3
        typ, obf = "powershell.string", "replace"
    else:
        if re.search(rb"[/\[\](){}\\.+*?^$,]", a_):
            return o.exclude("pattern contains a regex metacharacter")
        if b"i" in case["flags"] and a_.lower() != a_.upper():
            return o.exclude("case-insensitive flag with letters in the pattern (semantics not covered by the statement)")
        blob = q1 + x + q1 + b".replace(/" + a_ + b"/" + case["flags"] + ws + b"," + ws + q3 + b_ + q3 + ws + b")"
        typ, obf = "javascript.string", "replace"
    pre, suf = case["embed"]
    if d == "vba" and pre[-1:].isalnum():
        return o.exclude("no delimiter before the function name")
    pre = with_decoy(case, blob, pre)
    text = pre + blob + suf
    a, b = len(pre), len(pre) + len(blob)
    root = _scan(text, o)
    if root is None:
        return o
    value = ref_replace(x, a_, b_)
    # the vba form 'Replace(x, a, b)' is itself preceded by nothing that could make it a method call; a method call on a
    # literal whose text ends the vba form is not generated
    _expect(o, root, text, a, b, typ, obf, value, "replace:" + d)
    occ = 0
    i = 0
    while a_ and i <= len(x) - len(a_):
        if x[i : i + len(a_)] == a_:
            occ += 1
            i += len(a_)
        else:
            i += 1
    o.nontrivial = occ >= 1
    o.label("replace:%s:occurrences=%s" % (d, occ if occ < 3 else "3+"))
    if b_ == b"":
        o.label("replace:empty-replacement")
    return o


def units(tier):
    q = tier == "quick"
    return [
        Unit("concat", "hyp", check=check_concat, strategy=concat_cases, budget=20000 if q else 400000),
        Unit("reverse", "hyp", check=check_reverse, strategy=reverse_cases, budget=14000 if q else 300000),
        Unit("replace", "hyp", check=check_replace, strategy=replace_cases, budget=24000 if q else 500000),
    ]
