"""C01 - Scanning is total: no input makes a scan raise or hang; every read-only view completes.

Oracle: no exception escapes scan(); flatten / iteration / summary / JSON complete; non-termination is decided by a
deterministic line-event budget (vf.hangcheck), the wall-clock alarm only nominates candidates.
Violations are bucketed by root cause = (exception type, innermost multidecoder frame).
"""
from __future__ import annotations

import itertools

from hypothesis import strategies as st

from .. import strategies as S
from ..observe import CaseTimeout, guarded, hang_verdict, tree_height
from ..triage import exc_key
from ..unit import Outcome, Unit

ID = "C01"
QUICK_SCALE = 1.0  # this check already takes 75-95 s in the quick tier
RULE = (
    "case = (input bytes, depth limit); inputs are grammar-directed token soups (accepted language + near-misses of every "
    "decoder, recursively wrapped/encoded), flat edge-token soups, shell command texts with every cut point, generated PE "
    "images with truncation / pointer / byte damage, and enumerated parameter edges (xor keys 0..999, &#x??; over all "
    "alphanumeric pairs, Windows-path prefix x dot-segment mixes); depth limits from {-10^9,-3..12,10^6,default}. "
    "Non-trivial = the scan produced at least one node (or, for direct decoder calls, the decoder produced a hit or the "
    "input ends in a dangling escape); distinct by input hash."
)
ASSUMPTIONS = [
    "inputs <= 8 KB; regex pathologies that need very long inputs are not explored",
    "hang verdict = more than 2e8 line events inside multidecoder/pefile code (a normal 130-byte scan is ~4e5); slower-but-terminating cases are counted as slow, not violations",
    "pefile as installed in /venv",
]

ALARM_S = 2.0
_verdicts: dict = {}  # innermost multidecoder frame at interruption -> verdict (a confirmed loop is not re-confirmed)
_timeouts = [0]


def _site(where: str) -> str:
    """call-site part of a root-cause key; the vendored xortool module is one site"""
    return "xortool.py:*" if where.startswith("xortool.py") else where


def _where(exc) -> str:
    import traceback

    tb = traceback.extract_tb(exc.__traceback__)
    inner = [f for f in tb if "/multidecoder/" in f.filename]
    if not inner:
        return "?"
    f = inner[-1]
    return "%s:%s" % (f.filename.rsplit("/", 1)[-1], f.name)
DEPTHS = [None, None, None, 10, 1, 2, 3, 0, -1, -3, 5, 12, 10**6, -(10**9)]

_md = None


def scanner():
    global _md
    if _md is None:
        from multidecoder.multidecoder import Multidecoder

        _md = Multidecoder()
    return _md


def _views(root, o: Outcome):
    from multidecoder.json_conversion import tree_to_json
    from multidecoder.query import string_summary

    height = None
    for name, fn in (
        ("flatten", lambda: root.flatten()),
        ("iter", lambda: list(root)),
        ("summary", lambda: string_summary(root)),
        ("json", lambda: tree_to_json(root)),
        ("repr", lambda: repr(root)),
    ):
        try:
            fn()
        except RecursionError as e:
            if height is None:
                height = tree_height(root)
            if height >= 150:
                o.violate("RecursionError:view:deep-nesting", {"view": name, "height": height})
            else:
                o.violate("RecursionError:view@" + exc_key(e), {"view": name, "height": height})
        except Exception as e:
            o.violate("view:" + name + ":" + exc_key(e), {"error": repr(e)[:300]})


def check_scan(case) -> Outcome:
    o = Outcome()
    data = case["data"]
    depth = case.get("depth")
    md = scanner()

    def run():
        return md.scan(data) if depth is None else md.scan(data, depth)

    try:
        root = guarded(ALARM_S, run)
    except CaseTimeout as e:
        _timeouts[0] += 1
        w = _where(e)
        v = _verdicts.get(w)
        if v is None:
            v = hang_verdict(data, depth, hard_cap_s=120)
            if v.get("verdict") in ("budget", "cap", "memory"):
                _verdicts[w] = v
        if v.get("verdict") == "budget":
            o.violate("hang@" + _site(v.get("where") or w), v)
        elif v.get("verdict") == "cap":
            # few line events but no return: the time goes into C code (e.g. regex backtracking). Second opinion: CPU time
            # consumed by a fresh interpreter (not wall-clock); normal scans of such inputs take milliseconds
            from ..observe import cpu_budget_verdict

            v2 = _verdicts.get(("cpu", w)) or cpu_budget_verdict(data, depth)
            if v2.get("verdict") == "cpu-budget":
                _verdicts[("cpu", w)] = v2
                o.violate("hang:cpu-budget@" + _site(v2.get("where") if v2.get("where", "?") != "?" else w), v2)
            else:
                o.label("inconclusive:wall-cap@" + _site(w))
        elif v.get("verdict") == "memory":
            o.violate("blowup@" + _site(v.get("where") or w), v)
        else:
            o.label("slow-but-terminates")
        o.nontrivial = True
        return o
    except RecursionError as e:
        o.violate("RecursionError:scan@" + exc_key(e), {"error": repr(e)[:200]})
        return o
    except MemoryError as e:
        o.violate("blowup@" + _site(exc_key(e).split("@", 1)[-1]), {})
        return o
    except Exception as e:
        o.violate(exc_key(e), {"error": repr(e)[:300]})
        o.nontrivial = True
        return o
    if type(root).__name__ != "Node":
        o.violate("scan:not-a-node", {"type": type(root).__name__})
        return o
    try:
        guarded(ALARM_S, _views, root, o)
    except CaseTimeout:
        o.violate("hang:views", {})
    o.nontrivial = bool(root.children)
    if depth is not None and depth <= 0:
        o.label("depth<=0")
    elif depth is not None:
        o.label("depth>0")
    if root.children:
        o.label("has-nodes")
    return o


# ---- strategies ---------------------------------------------------------------------------------
def depth_limits():
    return st.sampled_from(DEPTHS)


def soup_cases():
    return st.fixed_dictionaries({"data": S.documents(), "depth": depth_limits()})


def token_cases():
    return st.fixed_dictionaries({"data": S.token_soup(), "depth": depth_limits()})


def pe_cases():
    return st.tuples(st.binary(max_size=20), S.pe_params(allow_damage=True), st.binary(max_size=20), depth_limits()).map(
        lambda t: {"data": t[0] + S.build_pe(t[1]) + t[2], "depth": t[3]}
    )


# URLs under structured mutation: semantics-preserving and -breaking escapes anywhere after the scheme (double encoding,
# escaped delimiters and brackets, escapes inside IPv6 literals), the class in which "valid as written, invalid once
# normalised" inputs live
def _mutate_url(url: bytes, ops):
    u = bytearray(url)
    base = url.find(b"://") + 3
    for kind, pos, val in ops:
        if len(u) <= base:
            break
        i = base + pos % (len(u) - base)
        if kind == 0:
            u[i : i + 1] = (b"%%%02x" if val % 2 else b"%%%02X") % u[i]
        elif kind == 1:
            j = u.find(b"%", i)
            if j >= 0:
                u[j : j + 1] = b"%25"
        elif kind == 2:
            j = u.find(b"%", i)
            if j >= 0 and j + 2 < len(u):
                k = j + 1 + val % 2
                u[k : k + 1] = b"%%%02X" % u[k]
        elif kind == 3:
            u[i:i] = [b"[", b"]", b"%5B", b"%5D", b"%2E", b"%2e", b"%3A", b"@", b":", b"%40", b"%25", b"%"][val % 12]
        elif kind == 4:
            del u[i]
        else:
            u[i : i + 1] = bytes([val])
    return bytes(u)


def url_mut_cases():
    from . import c12

    base = st.one_of(S.cached("c12.url_parts", c12.url_parts).map(lambda p: c12.assemble(p)[0]), S.frag_url(), st.sampled_from([b"http://[::1]/a", b"http://[fe80::1%25eth0]:80/", b"ftp://[2001:db8::1]/x", b"http://[::ffff:1.2.3.4]/"]))
    ops = st.lists(st.tuples(st.integers(0, 5), st.integers(0, 200), st.integers(0, 255)), min_size=1, max_size=4)
    ctx = st.sampled_from([(b"", b""), (b"see ", b" now"), (b"'", b"'"), (b"(", b")"), (b"\x07", b""), (b"x\n", b"\n")])
    return st.tuples(base, ops, ctx, depth_limits()).map(lambda t: {"data": t[2][0] + _mutate_url(t[0], t[1]) + t[2][1], "depth": t[3]})


# shell command texts: every prefix is handed to the hand-written parsers directly
SHELL_PIECES = S.CMD_PIECES + [b"powershell", b"pwsh", b" -e ", b"/e", b" -enc ", b"-encodedcommand ", b"AAAA", b"ZQBjAGgAbwAgAGIAZQBlAA==", b"=", b";", b"'(", b"')", b"cmd", b"c^md", b'"cmd"', b"/c ", b"x"]


def shell_texts():
    return st.tuples(st.sampled_from(S.CMD_TOKENS + S.PS_TOKENS + [b""]), st.lists(st.sampled_from(SHELL_PIECES), max_size=12)).map(lambda t: {"text": t[0] + b"".join(t[1])})


def check_shell_cuts(case) -> Outcome:
    from multidecoder.decoders import shell

    o = Outcome()
    text = case["text"]
    n_hits = 0
    for cut in range(len(text) + 1):
        for part in (text[:cut], text[cut:]):
            for fn in (shell.strip_carets, shell.find_cmd_strings, shell.find_powershell_strings, shell.get_cmd_command, shell.get_powershell_command):
                try:
                    r = fn(part)
                    if isinstance(r, list):
                        n_hits += len(r)
                except Exception as e:
                    o.violate(exc_key(e), {"function": fn.__name__, "input": part, "error": repr(e)[:200]})
    o.nontrivial = n_hits > 0 or text.endswith((b"^", b"^\r", b"^\r\n"))
    if b"^\r" in text:
        o.label("caret-CR")
    return o


def analyzer_cases():
    return st.fixed_dictionaries({"data": st.one_of(S.documents(heavy=False), S.token_soup(20))})


_analyzers = None


def check_analyzers(case) -> Outcome:
    """every @decoder function called directly on the document: exceptions are attributed to the function"""
    global _analyzers
    if _analyzers is None:
        from multidecoder.registry import get_analyzers

        _analyzers = get_analyzers()
    o = Outcome()
    data = case["data"]
    hits = 0
    for f in _analyzers:
        try:
            out = guarded(ALARM_S, f, data)
            hits += len(out)
            for n in out:
                if type(n).__name__ != "Node" or not isinstance(n.value, bytes):
                    o.violate("decoder:bad-hit:" + f.__name__, {})
        except CaseTimeout:
            o.violate("slow-decoder:" + f.__name__, {"len": len(data)})
        except Exception as e:
            o.violate(exc_key(e), {"function": f.__name__, "error": repr(e)[:200]})
    o.nontrivial = hits > 0
    return o


# ---- cases stuck in C code (watchdog) ---------------------------------------------------------------------
def on_stuck(case, unit):
    """called by the runner for a case that did not return within the worker's watchdog time: CPU-budget verdict"""
    from ..observe import cpu_budget_verdict

    data = case.get("data", case.get("text"))
    if data is None:
        return None
    v = cpu_budget_verdict(data, case.get("depth"))
    if v.get("verdict") == "cpu-budget":
        return "hang:cpu-budget@" + _site(v.get("where", "?")), v
    return None


# ---- pumped inputs: a short token sequence repeated many times (catastrophic regex backtracking, quadratic scanners) --
PUMP_TOKENS = S.TOK + S.CMD_PIECES + [b"`\"", b"\\\"", b'""', b"''", b"`", b"a", b"aaaa", b"A+/", b"%41", b"&#65;", b"\x00a", b"0x41,", b"AAAA\r\n", b"ab.", b"a-", b"/ab", b"\\ab", b" ^", b"('", b"')"]


def pump_cases():
    opener = st.sampled_from([b"", b'"', b"'", b"(", b"CreateObject(", b"cmd /c ", b'Write-Host "', b"powershell -e ", b"atob('", b"unescape('", b"http://", b"\\\\", b"x = '"])
    unit_ = st.lists(st.sampled_from(PUMP_TOKENS), min_size=1, max_size=3).map(b"".join)
    closer = st.sampled_from([b"", b'"', b"'", b")", b"')", b"\x00", b" !", b"\n"])
    return st.tuples(opener, unit_, st.sampled_from([12, 24, 32, 48, 64, 96]), closer, st.sampled_from([None, 2])).map(lambda t: {"data": (t[0] + t[1] * t[2] + t[3])[:4096], "depth": t[4]})


# ---- enumerated parameter edges ---------------------------------------------------------------------
BIG_TEMPLATES = [
    b"x = chr(<N>)", b"ChrW(<N>)", b"chrb(000<N>)", b"FromBase64String('ZHVjaw==') -bxor <N>", b"-bxor <N> " + b",".join([b"65"] * 510), b"&#<N>;&#65;&#66;&#67;&#68;&#69;",
    b"&#65;&#66;&#67;&#68;&#<N>;", b"http://example.com:<N>/x", b"http://<N>/x", b"http://1.2.3.<N>/x", b"1.2.3.<N>", b"\\\\1.2.3.4@<N>\\share\\x", b"http://0x<N>/",
    b"&#x<N>;&#x41;&#x41;&#x41;&#x41;&#x41;", b"%u<N>", b"unescape('%<N>')", b"0x<N>," * 3, b"powershell -e <N>", b"ftp://user:pw@1.2.3.4:<N>/",
]


def edge_inputs():
    alnum = b"0123456789abcdefghijklmnopqrstuvwxyzABCDEFGHIJKLMNOPQRSTUVWXYZ"
    for n in range(0, 1000):
        yield b"FromBase64String('ZHVjaw==') -bxor %d" % n
        yield b"-xor %d [System.Convert]::FromHexString('6475636b6475636b6475636b')" % n
    for a in alnum:
        for b in alnum:
            yield (b"&#x%c%c;" % (a, b)) * 5
            yield b"&#65;&#66;&#67;&#68;" + (b"&#X%c%c;" % (a, b))
    for n in range(0, 256):
        yield (b"&#%03d;" % n) * 5
        if n < 100:
            yield b"&#65;&#66;&#67;&#68;" + (b"&#%02d;" % n)
    prefixes = [b"C:\\", b"\\\\host.com\\", b"\\\\?\\", b"\\\\.\\", b"\\\\?\\UNC\\", b"\\\\.\\UNC\\", b"\\\\?\\C:\\", b"\\\\?\\UNC\\host.com\\", b"\\", b"", b"D:", b"\\\\.\\UNC\\1.2.3.4\\", b"\\\\h@SSL@443\\"]
    segs = [b"abc\\", b"..\\", b".\\", b"x.y\\", b"UNC\\", b"...\\"]
    names = [b"abc", b"...", b"a.exe", b"..."]
    for p in prefixes:
        for k in (1, 2, 3):
            for combo in itertools.product(segs, repeat=k):
                for nm in names[:2] if k == 3 else names:
                    yield p + b"".join(combo) + nm
    hosts = [b"a.com", b"1.2.3.4", b"[::1]", b"[::1", b"%5B::1%5D", b"%5b::1", b"0x7f.1", b"1.2.3.4%20x", b"[v1.x]", b"[]", b"%", b"a%zz.com", b"999.999.999.999", b"0xffffffffff.com",
             b"[::1%2E]", b"[::1%25eth0]", b"[%3A%3A1]", b"[::%31]", b"%5%42::1", b"%%35Bcdn.com", b"[::ffff:1.2.3.4]", b"[::1%2e%2E]"]
    for scheme in (b"http", b"FTP", b"https"):
        for ui in S.URL_USERINFO:
            for h in hosts:
                for port in S.URL_PORTS:
                    for tail in (b"", b"/", b"/..", b"?#", b"/%", b"/%2", b"#%zz"):
                        yield scheme + b"://" + ui + h + port + tail
    for n in (0, 1, 127, 128, 255, 256, 55295, 55296, 57343, 57344, 65535, 65536, 99999):
        for z in range(0, 4):
            for f in (b"chr", b"ChrW", b"chrb"):
                yield f + b"(" + b"0" * z + b"%d" % n + b")"
    for pad in range(0, 5):
        for s in (b"AAAA", b"QUJD", b"ZQBjAGgAbw"):
            for sw in (b"-e", b"/e", b"-enc", b"-encodedcommand", b"-ec"):
                for sep in (b" ", b"^ ", b"^\r\n", b"\t", b"  "):
                    yield b"powershell" + sep + sw + sep + s + b"=" * pad
                    yield b"powershell" + sw + sep + b"'" + s + b"=" * pad
    for k in range(495, 506):
        for hi in (255, 256, 999):
            yield b",".join([b"%d" % hi] * k) + b" -bxor 7"
    # numeric parameters far outside any machine range (C int, 64 bit, Python's 4300-digit conversion limit)
    for tmpl in BIG_TEMPLATES:
        for big in S.BIGNUMS:
            yield tmpl.replace(b"<N>", big)
    # wide-character runs chained through every NUL gap (odd gaps shift the alignment of what follows), 6-8 characters each
    runs = [bytes(x for c in w for x in (c, 0)) for w in (b"AAAAAA", b"BBBBBBB", b"cccccccc", b"d\xe9j\xe0 vu!")]
    for gaps in itertools.product(range(0, 8), repeat=2):
        for trio in ((0, 1, 2), (1, 2, 3), (3, 1, 1), (2, 0, 1)):
            for lead in (b"", b"\x00", b"x"):
                yield lead + runs[trio[0]] + b"\x00" * gaps[0] + runs[trio[1]] + b"\x00" * gaps[1] + runs[trio[2]]


def run_edges(ctx, shard, nshards, seed, budget):
    for i, data in enumerate(edge_inputs()):
        if i % nshards != shard:
            continue
        case = {"data": data, "depth": None}
        out = check_scan(case)
        out.label("edge")
        ctx.record(case, out)


# ---- known-finding demonstrations (deterministic families) ------------------------------------------
def kf_demo_cases(with_k4=True):
    cases = []
    for n in (50, 200, 400, 1000):
        cases.append({"data": b"createobject(" * n + b")" * n, "depth": None, "family": "deep-nesting-%d" % n})
    # K4: periodic ties for the key-guessing xor (40-periodic pattern A x8 then pattern B x8: 2^40 candidate keys)
    p1 = bytes((i * 37 + 11) % 256 for i in range(40))
    p2 = bytes((c + 1) % 256 for c in p1)
    binary = p1 * 8 + p2 * 8
    if with_k4:
        cases.append({"data": b",".join(b"%d" % c for c in binary) + b" -bxor $k", "depth": None, "family": "xor-periodic-ties"})
    return cases


# ---- coverage-guided campaigns (thorough tier) ---------------------------------------------------------
def run_fuzz(which):
    def run(ctx, shard, nshards, seed, budget):
        import os
        import re
        import shutil
        import subprocess
        import sys
        import tempfile

        from .. import VERIF_DIR, die_with_parent

        base = os.path.join(VERIF_DIR, ".scratch")
        os.makedirs(base, exist_ok=True)
        work = tempfile.mkdtemp(prefix="vf-fuzz-%s-%d-" % (which, shard), dir=base)
        corpus, out = os.path.join(work, "corpus"), os.path.join(work, "out")
        os.makedirs(corpus)
        try:
            # even shards start from an empty corpus, odd shards from generated valid inputs
            if shard % 2:
                if which == "pe":
                    i = 0
                    for pe64 in (False, True):
                        for nsec in (1, 2, 3):
                            for lf in (0x40, 0x80, 0x100):
                                with open(os.path.join(corpus, "pe%d" % i), "wb") as f:
                                    f.write(S.make_pe(e_lfanew=lf, nsec=nsec, sec_sizes=(0x200,) * nsec, pe64=pe64))
                                i += 1
                else:
                    for i, t in enumerate(S.PAYLOADS + [b"atob('aHR0cDovL2EuY29tLw==')", b"cmd /c e^cho a", b"powershell -e ZQBjAGgAbwAgAGIAZQBlAA==", b"&#65;&#66;&#67;&#68;&#69;"]):
                        with open(os.path.join(corpus, "s%d" % i), "wb") as f:
                            f.write(t)
            args = ["-max_total_time=%d" % budget, "-seed=%d" % (seed * 100 + shard + 1), "-print_final_stats=1", "-max_len=%d" % (8192 if which == "pe" else 2048), "-timeout=60", "-rss_limit_mb=3000"]
            if which == "scan":
                dpath = os.path.join(work, "tokens.dict")
                with open(dpath, "w") as f:
                    for t in S.TOK:
                        f.write('"' + "".join("\\x%02x" % c for c in t) + '"\n')
                args.append("-dict=" + dpath)
            p = subprocess.run([sys.executable, "-m", "vf.fuzz_target", which, out, corpus] + args, cwd=VERIF_DIR, capture_output=True, text=True, timeout=budget + 300, preexec_fn=die_with_parent)
            m = re.search(r"stat::number_of_executed_units:\s*(\d+)", p.stderr)
            execs = int(m.group(1)) if m else 0
            m2 = re.findall(r"cov: (\d+)", p.stderr)
            ctx.bulk(execs, execs // 2, {"fuzz:%s:executions" % which: execs})
            ctx.notes["fuzz_%s_cov_edges_max" % which] = int(m2[-1]) if m2 else 0
            if not execs:
                ctx.errors.append("atheris campaign produced no executions: " + p.stderr[-600:])
            if os.path.isdir(out):
                for fn in sorted(os.listdir(out)):
                    if fn.endswith(".bin"):
                        data = open(os.path.join(out, fn), "rb").read()
                        case = {"data": data, "depth": None}
                        o = check_scan(case) if which == "scan" else check_pe_direct(case)
                        o.label("fuzz:%s:bucket" % which)
                        ctx.record(case, o)
            for fn in sorted(os.listdir(corpus))[:3]:
                ctx.sample({"fuzz_corpus_entry": open(os.path.join(corpus, fn), "rb").read()[:120]})
        finally:
            shutil.rmtree(work, ignore_errors=True)

    return run


def check_pe_direct(case) -> Outcome:
    from multidecoder.decoders.pe_file import find_pe_files

    o = Outcome()
    try:
        hits = find_pe_files(case["data"])
    except Exception as e:
        return o.violate(exc_key(e), {"error": repr(e)[:200]})
    for h in hits:
        if not (0 <= h.start <= h.end <= len(case["data"])):
            o.violate("pe:span-out-of-bounds", {"start": h.start, "end": h.end, "len": len(case["data"])})
    o.nontrivial = bool(hits)
    return o


def units(tier):
    q = tier == "quick"
    return [
        Unit("soup", "hyp", check=check_scan, strategy=soup_cases, budget=30000 if q else 400000),
        Unit("tokens", "hyp", check=check_scan, strategy=token_cases, budget=30000 if q else 400000),
        Unit("pump", "hyp", check=check_scan, strategy=lambda: S.cached("c01.pump", pump_cases), budget=16000 if q else 300000),
        Unit("url_mut", "hyp", check=check_scan, strategy=lambda: S.cached("c01.url_mut", url_mut_cases), budget=30000 if q else 500000),
        Unit("pe", "hyp", check=check_scan, strategy=pe_cases, budget=4000 if q else 60000),
        Unit("shell_cuts", "hyp", check=check_shell_cuts, strategy=shell_texts, budget=24000 if q else 400000),
        Unit("analyzers", "hyp", check=check_analyzers, strategy=analyzer_cases, budget=40000 if q else 600000),
        Unit("edges", "custom", check=check_scan, run=run_edges, budget=1, scalable=False),
        Unit("kf_demo", "fixed", check=check_scan, cases=(lambda: kf_demo_cases(with_k4=not q))),
    ] + (
        []
        if q
        else [
            Unit("fuzz_pe", "custom", check=check_pe_direct, run=run_fuzz("pe"), budget=240, shards=8, scalable=False),
            Unit("fuzz_scan", "custom", check=check_scan, run=run_fuzz("scan"), budget=240, shards=8, scalable=False),
        ]
    )
