"""C02 - Layered obfuscation round-trips: every layer is peeled, in order, to payload."""
from __future__ import annotations

import re

from hypothesis import strategies as st

from .. import encoders as X
from .. import strategies as S
from ..observe import CaseTimeout, guarded
from ..unit import Outcome, Unit

ID = "C02"
RULE = (
    "case = payload (neutral words + one plain indicator: URL / IP / e-mail / domain / Windows path, verified to scan without "
    "any decoding) wrapped in a stack of 1-5 encoders drawn from 14 encoders written independently of the decoders (bare "
    "base64, atob, Base64Decode, FromBase64String, hex, FromHexString, UTF-16, XML references, unescape, concatenation, "
    "reverse, replace (4 dialects), caret-escaped cmd, PowerShell byte array), each applied only when the current text is in its "
    "documented domain, embedded at a drawn offset in neutral text, scanned with depth limit in {n, n+1, 10}. Expected by "
    "construction: one nested node per layer (exact span, type, label, plaintext), the indicator beneath the innermost layer "
    "when the budget allows, and flatten() = neutral text with the payload substituted (string-typed layers re-quoted). "
    "Non-trivial = stack height >= 2; distinct by (encoder sequence, payload kind, variation). Histograms of heights and of "
    "adjacent encoder pairs are reported."
)
ASSUMPTIONS = [
    "known finding K3 (upper-case hex with >= 20 leading digits) is excluded by construction and counted",
    "bare base64 / hex as the outermost layer are delimited by spaces or '; ' (a line break after a word is part of the documented line-wrapped base64 shape)",
    "a cmd layer that is outermost is terminated by NUL (documented end of a cmd result)",
]

_md = None


def scanner():
    global _md
    if _md is None:
        from multidecoder.multidecoder import Multidecoder

        _md = Multidecoder()
    return _md


NAMES = sorted(X.ENCODERS)
LDH = b"abcdefghijklmnopqrstuvwxyz0123456789"


def _w(lo, hi):
    return st.lists(st.sampled_from(list(LDH)), min_size=lo, max_size=hi).map(bytes)


@st.composite
def payloads(draw):
    k = draw(st.sampled_from(["url", "ip", "email", "winpath", "domain"]))
    if k == "url":
        ind, typ = b"http://" + draw(_w(3, 8)) + b".example.com/" + draw(_w(1, 6)), "network.url"
    elif k == "ip":
        ind, typ = b"%d.%d.%d.%d" % (draw(st.integers(1, 254)), draw(st.integers(0, 255)), draw(st.integers(0, 255)), draw(st.integers(1, 254))), "network.ip"
    elif k == "email":
        ind, typ = draw(_w(3, 8)) + b"@" + draw(_w(3, 8)) + b".org", "network.email"
    elif k == "winpath":
        ind, typ = b"C:\\Users\\" + draw(_w(3, 8)) + b"\\" + draw(_w(3, 8)) + b".exe", "windows.path"
    else:
        ind, typ = draw(_w(3, 9)) + b".example.net", "network.domain"
    pre = draw(S.neutral(1, 3)) + b" "
    suf = b" " + draw(S.neutral(1, 3))
    # optionally an earlier plain indicator (one the engine keeps as an open context while it reads on): both must be reported
    lead = draw(st.sampled_from([None, None, "ip", "email", "domain"]))
    inds = []
    if lead == "ip":
        l0, t0 = b"%d.%d.%d.%d" % (draw(st.integers(1, 254)), draw(st.integers(0, 255)), draw(st.integers(0, 255)), draw(st.integers(1, 254))), "network.ip"
    elif lead == "email":
        l0, t0 = draw(_w(3, 8)) + b"@" + draw(_w(3, 8)) + b".org", "network.email"
    elif lead == "domain":
        l0, t0 = draw(_w(3, 9)) + b".example.net", "network.domain"
    if lead is not None:
        inds.append([len(pre), len(pre) + len(l0), t0, l0])
        pre = pre + l0 + b" " + draw(S.neutral(1, 2)) + b" "
    return {"kind": k, "text": pre + ind + suf, "ind": [len(pre), len(pre) + len(ind), typ, ind], "more": inds}


def cases():
    return st.fixed_dictionaries(
        {
            "payload": payloads(),
            "stack": st.lists(st.tuples(st.sampled_from(NAMES), st.lists(st.integers(0, 7), min_size=2, max_size=8)), min_size=1, max_size=5),
            "pre": S.neutral(0, 3),
            "suf": S.neutral(0, 3),
            "delim": st.sampled_from([b" ", b"; ", b" ", b"\t"]),
            "depth": st.sampled_from(["n", "n+1", "10"]),
        }
    )


def build(case):
    """apply the stack innermost-first; returns layers outermost-first and the final blob"""
    cur = case["payload"]["text"]
    layers = []
    skipped = []
    for name, v in case["stack"]:
        if len(cur) > 9000:
            skipped.append("size-cap")
            break
        res = X.ENCODERS[name](cur, X.V(v))
        if res is None:
            skipped.append(name)
            continue
        blob, typ, obf, val, frame = res
        layers.append({"name": name, "type": typ, "obf": obf, "value": val, "inner": (frame, frame + len(cur))})
        cur = blob
    layers.reverse()
    return layers, cur, skipped


def find_through_contexts(node, span):
    """children with the given span, looking through undecoded contexts that contain it (contexts never change bytes)"""
    out = []
    a, b = span
    for c in node.children:
        if (c.start, c.end) == (a, b):
            out.append(c)
        if c.start <= a and b <= c.end and c.value.lower() == node.value[c.start : c.end].lower() and c.children:
            out.extend(find_through_contexts(c, (a - c.start, b - c.start)))
    return out


def check(case) -> Outcome:
    o = Outcome()
    pay = case["payload"]
    md = scanner()
    # the payload's own scan must be non-decoding (otherwise the expected flatten is not the payload)
    try:
        proot = guarded(5.0, md.scan, pay["text"])
    except CaseTimeout:
        return o.exclude("slow-scan")
    except Exception as e:
        return o.exclude("scan-raised:" + type(e).__name__ + " (C01's business)")
    if proot.flatten() != pay["text"] or any(n.value.lower() != n.original.lower() for n in proot):
        return o.exclude("payload is not decoding-free")
    layers, blob, skipped = build(case)
    for s in skipped:
        o.exclude("encoder not applicable to the current text: " + s)
    if not layers:
        return o
    n = len(layers)
    pre, suf = case["pre"], case["suf"]
    outer = layers[0]["name"]
    pre = (pre + case["delim"]) if pre else b""
    if outer == "cmd":
        suf = b"\x00" + suf
    else:
        suf = (case["delim"] + suf) if suf else b""
    if outer in ("b64", "hex") and case["delim"] == b"\t" and False:
        pass
    text = pre + blob + suf
    k = {"n": n, "n+1": n + 1, "10": 10}[case["depth"]]
    if k < n:
        k = n
    try:
        root = guarded(20.0, md.scan, text, k)
    except CaseTimeout:
        return o.exclude("slow-scan")
    except Exception as e:
        return o.exclude("scan-raised:" + type(e).__name__ + " (C01's business)")
    names = [l["name"] for l in layers]
    node = root
    span = (len(pre), len(pre) + len(blob))
    ok = True
    for i, l in enumerate(layers):
        at_span = find_through_contexts(node, span)
        cands = [c for c in at_span if c.type == l["type"] and c.obfuscation == l["obf"] and c.value == l["value"]]
        if len(cands) != 1:
            same_span = [(c.type, c.obfuscation, c.value[:40]) for c in at_span]
            where = "outermost" if i == 0 else "inner"
            after = "" if i == 0 else ":under-" + layers[i - 1]["name"]
            kind = "duplicate" if len(cands) > 1 else ("wrong-fields" if same_span else "missing-or-wrong-span")
            o.violate("layer:%s:%s:%s%s" % (l["name"], where, kind, after), {"stack": names, "layer_index": i, "expected_span": span, "expected_type": l["type"], "expected_label": l["obf"], "same_span": same_span[:3], "children": [(c.start, c.end, c.type, c.obfuscation) for c in node.children][:6], "text": text[:300]})
            ok = False
            break
        node = cands[0]
        span = l["inner"]
    if ok:
        s, e, ityp, ival = pay["ind"]
        off = layers[-1]["inner"][0]
        found = [c for c in find_through_contexts(node, (s + off, e + off)) if c.type == ityp and c.value == ival]
        if k >= n + 1:
            if not found:
                o.violate("indicator-not-reported-beneath-innermost:" + pay["kind"], {"stack": names, "depth": k, "children": [(c.start, c.end, c.type, c.value[:30]) for c in node.children][:6], "expected": [s + off, e + off, ityp]})
                ok = False
            for s2, e2, t2, v2 in pay.get("more", []):
                o.label("payload:two-indicators")
                if not [c for c in find_through_contexts(node, (s2 + off, e2 + off)) if c.type == t2 and c.value == v2]:
                    o.violate("indicator-not-reported-beneath-innermost:earlier-" + t2.split(".")[-1], {"stack": names, "depth": k, "expected": [s2 + off, e2 + off, t2]})
                    ok = False
        elif node.children and not any(id(c) for c in node.children if c.obfuscation.startswith("cipher.")):
            o.violate("depth-limit:children-beneath-layer-n-with-k=n", {"stack": names, "depth": k})
            ok = False
    if ok:
        # expected flatten, folded from the innermost value outwards
        fl = layers[-1]["value"]
        for i in range(n - 1, -1, -1):
            l = layers[i]
            q = b'"' + fl + b'"' if l["type"].endswith("string") else fl
            if i > 0:
                a, b = layers[i - 1]["inner"]
                pv = layers[i - 1]["value"]
                fl = pv[:a] + q + pv[b:]
            else:
                fl = pre + q + suf
        try:
            got = root.flatten()
        except RecursionError:
            got = None
        if got != fl:
            strings = [l["name"] for l in layers if l["type"].endswith("string")]
            o.violate("flatten:differs" + (":with-string-layer" if strings else ""), {"stack": names, "got": (got or b"")[:300], "expected": fl[:300]})
    o.nontrivial = n >= 2
    o.nt_key = {"stack": names, "kind": pay["kind"], "v": [v for _, v in case["stack"]], "d": case["depth"]}
    o.label("height=%d" % n)
    o.label("depth:" + case["depth"])
    for a, b in zip(names, names[1:]):
        o.label("pair:%s>%s" % (a, b))
    return o


def units(tier):
    q = tier == "quick"
    return [Unit("stacks", "hyp", check=check, strategy=lambda: S.cached("c02.cases", cases), budget=16000 if q else 300000)]
