"""Shared case shapes for the engine-invariant properties C03, C04, C05: documents scanned by the shipped registry and
texts scanned by synthetic table registries, both through the recording wrapper."""
from __future__ import annotations

from hypothesis import strategies as st

from .. import strategies as S
from ..engine import Table, tables
from ..invariants import Analysis
from ..observe import CaseTimeout, Recorder, guarded

_rec = None


def default_recorder():
    global _rec
    if _rec is None:
        _rec = Recorder()
    return _rec


def doc_cases(depths=(1, 2, 3, 10, 10)):
    return st.fixed_dictionaries({"data": S.documents(), "depth": st.sampled_from(list(depths))})


def nested_cases(depths=(1, 2, 3, 10, 10)):
    return st.fixed_dictionaries({"data": S.nested_docs(), "depth": st.sampled_from(list(depths))})


def token_cases(depths=(1, 2, 10)):
    return st.fixed_dictionaries({"data": S.token_soup(), "depth": st.sampled_from(list(depths))})


def table_cases():
    return tables()


def analyse_doc(case, o):
    """scan a document with the recording default registry; returns Analysis or None (excluded)"""
    rec = default_recorder()
    try:
        root = guarded(5.0, rec.scan, case["data"], case["depth"])
    except CaseTimeout:
        o.exclude("slow-scan(>5s; totality is C01's business)")
        return None
    except Exception as e:
        o.exclude("scan-raised:" + type(e).__name__ + " (totality is C01's business)")
        return None
    return Analysis(rec, root, case["data"])


def analyse_table(case, o):
    tab = Table.from_case(case["registry"])
    decs = tab.decoders() or [lambda v: []]
    rec = Recorder(registry=decs)
    root = rec.scan(case["text"], case["depth"])
    return Analysis(rec, root, case["text"])
