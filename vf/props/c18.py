"""C18 - The registry contains every shipped decoder and honours configuration."""
from __future__ import annotations

import ast
import itertools
import json
import os
import shutil
import tempfile

from hypothesis import strategies as st

from .. import VERIF_DIR
from ..unit import Outcome, Unit

ID = "C18"
RULE = (
    "cases: (include subset, exclude subset) of the decoder module names - all 2^16 include subsets with exclude in "
    "{none, two derived subsets}, plus sampled pairs with unknown names; generated keyword directory layouts (1-6 files in "
    "nested sub-directories, empty files, blank lines, CRLF, duplicate words, same file name in two directories, words with "
    "spaces / punctuation); the shipped directory itself. Oracle: decoder functions are enumerated independently by parsing "
    "the module sources with ast (top-level functions decorated @decoder), keyword files by an own directory walk; every "
    "keyword searcher is probed with its own words; a committed snapshot of the pinned commit's registered functions is a "
    "lower bound (a function that still exists but is no longer registered is reported). Non-trivial = proper non-empty "
    "subset selection / layout with at least one non-empty file in a sub-directory or a blank line; distinct by case."
)
ASSUMPTIONS = [
    "an empty include list means 'no include list' (all modules), as for None",
    "'marked for registration' = decorated with @decoder at module top level (ast), cross-checked against the committed snapshot of the pinned commit",
    "keyword lines are separated by LF / CR / CRLF; a blank line is an empty line",
]
EXHAUSTIVE = {"quick": True, "thorough": True}
EXHAUSTIVE_SCOPE = {
    "quick": "all 2^16 include subsets of the 16 decoder modules (exclude = None), unit subsets",
    "thorough": "all 2^16 include subsets x exclude in {None, complement-of-include rotated, every third module}, unit subsets",
}

_info = None


def module_info():
    """module name -> list of function names decorated with @decoder (from source, via ast)"""
    global _info
    if _info is None:
        import multidecoder.decoders

        ddir = list(multidecoder.decoders.__path__)[0]
        marked, defined = {}, {}
        for fn in sorted(os.listdir(ddir)):
            if not fn.endswith(".py") or fn == "__init__.py":
                continue
            tree = ast.parse(open(os.path.join(ddir, fn)).read())
            funcs = [n for n in tree.body if isinstance(n, (ast.FunctionDef, ast.AsyncFunctionDef))]
            defined[fn[:-3]] = [n.name for n in funcs]

            def is_marker(d):
                return (isinstance(d, ast.Name) and d.id == "decoder") or (isinstance(d, ast.Attribute) and d.attr == "decoder")

            marked[fn[:-3]] = sorted(n.name for n in funcs if any(is_marker(d) for d in n.decorator_list))
        snap = json.load(open(os.path.join(os.path.dirname(__file__), "c18_snapshot.json")))
        _info = (marked, defined, snap)
    return _info


def expected_functions(include, exclude):
    marked, defined, snap = module_info()
    mods = sorted(marked)
    sel = [m for m in mods if (not include or m in include) and not (exclude and m in exclude)]
    exp = {(m, f) for m in sel for f in marked[m]}
    # lower bound from the snapshot: still-defined functions of selected modules must be registered
    for name in snap:
        m, f = name.split(".", 1)
        if m in sel and f in defined.get(m, []):
            exp.add((m, f))
    return exp


def got_functions(include, exclude):
    from multidecoder.registry import get_analyzers

    out = get_analyzers(include=include, exclude=exclude)
    names = [(f.__module__.rsplit(".", 1)[1], f.__name__) for f in out]
    return names


def check_subset(case) -> Outcome:
    o = Outcome()
    include, exclude = case["include"], case["exclude"]
    names = got_functions(include, exclude)
    exp = expected_functions(include, exclude)
    if len(set(names)) != len(names):
        o.violate("analyzers:duplicate-function", {"include": include, "exclude": exclude})
    got = set(names)
    if got != exp:
        missing, extra = sorted(exp - got), sorted(got - exp)
        if missing and not extra:
            key = "analyzers:missing"
        elif extra and not missing:
            key = "analyzers:extra"
        else:
            key = "analyzers:wrong-selection"
        o.violate(key, {"include": include, "exclude": exclude, "missing": missing[:6], "extra": extra[:6]})
    nmods = len(module_info()[0])
    o.nontrivial = bool(include or exclude) and 0 < len(exp)
    return o


def run_subsets(ctx, shard, nshards, seed, budget):
    mods = sorted(module_info()[0])
    n = len(mods)
    evals = nt = 0
    for mask in range(1 << n):
        if mask % nshards != shard:
            continue
        inc = [m for i, m in enumerate(mods) if mask >> i & 1]
        excludes = [None]
        if budget:  # thorough
            rot = [mods[(i + 3) % n] for i in range(n) if not (mask >> i & 1)][: 5]
            excludes += [rot, mods[::3]]
        for exc in excludes:
            case = {"include": inc or None, "exclude": exc}
            names = got_functions(case["include"], case["exclude"])
            exp = expected_functions(case["include"], case["exclude"])
            evals += 1
            if (inc or exc) and exp:
                nt += 1
            if set(names) != exp or len(set(names)) != len(names):
                out = check_subset(case)
                ctx.record(case, out)
                evals -= 1
        if mask % 9973 == shard:
            ctx.sample({"include": inc, "exclude": None})
    ctx.bulk(evals, nt, {"subsets": evals})


def pair_cases():
    mods = sorted(module_info()[0]) + ["nosuchmodule", "Base64", "network ", ""]
    sub = st.one_of(st.none(), st.lists(st.sampled_from(mods), max_size=6, unique=True))
    return st.fixed_dictionaries({"include": sub, "exclude": sub})


# ---- keyword directories --------------------------------------------------------------------------------
WORDS = [b"alpha", b"Alpha", b"beta-gamma", b"two words", b"x", b"1234", b"dot.name", b"CreateFileW", b"tab\there", b"a+b", b"\xe9t\xe9", b"(paren", b"ALPHA"]


def layout_cases():
    f = st.fixed_dictionaries(
        {
            "name": st.sampled_from(["api", "list.txt", "network.port", "k", "UPPER", "same"]),
            "sub": st.sampled_from(["", "", "one", "one/two", "other"]),
            "words": st.lists(st.sampled_from(WORDS), max_size=5),
            "eol": st.sampled_from([b"\n", b"\r\n", b"\r"]),
            "blank_lines": st.integers(0, 2),
            "trailing_eol": st.booleans(),
        }
    )
    return st.fixed_dictionaries({"files": st.lists(f, min_size=1, max_size=6, unique_by=lambda x: (x["name"], x["sub"])), "empty_dirs": st.lists(st.sampled_from(["e1", "one/e2"]), max_size=2, unique=True), "spelling": st.sampled_from(["abs", "abs", "abs/", "rel", "./rel", "rel/"])})


def _scratch():
    for base in ("/dev/shm", os.path.join(VERIF_DIR, ".scratch")):
        if os.path.isdir(base) and os.access(base, os.W_OK):
            return base
    os.makedirs(os.path.join(VERIF_DIR, ".scratch"), exist_ok=True)
    return os.path.join(VERIF_DIR, ".scratch")


def write_layout(d, case):
    for f in case["files"]:
        sub = os.path.join(d, f["sub"]) if f["sub"] else d
        os.makedirs(sub, exist_ok=True)
        body = b""
        for i, w in enumerate(f["words"]):
            body += w + f["eol"]
            if i < f["blank_lines"]:
                body += f["eol"]
        if not f["words"]:
            body = f["eol"] * f["blank_lines"]
        if not f["trailing_eol"] and body.endswith(f["eol"]) and f["words"]:
            body = body[: -len(f["eol"])]
        with open(os.path.join(sub, f["name"]), "wb") as fh:
            fh.write(body)
    for e in case["empty_dirs"]:
        os.makedirs(os.path.join(d, e), exist_ok=True)


def probe_searchers(searchers, words):
    """multiset of (type, frozenset(values)) reported by each searcher on a text that contains every word on its own line"""
    text = b"\n" + b"\n".join(sorted(set(words))) + b"\n"
    out = []
    for s in searchers:
        hits = s(text)
        types = {h.type for h in hits}
        out.append((tuple(sorted(types)), tuple(sorted({h.value for h in hits}))))
    return sorted(out)


def check_layout(case) -> Outcome:
    from multidecoder.registry import build_registry, get_analyzers, get_keywords

    o = Outcome()
    d = tempfile.mkdtemp(prefix="vf-c18-", dir=_scratch())
    cwd = os.getcwd()
    try:
        write_layout(d, case)
        analyzers = get_analyzers()
        # how the caller spells the directory: absolute, or relative to the working directory (as in `-k ./mykeywords`)
        spelling = case.get("spelling", "abs")
        given = d
        if "rel" in spelling:
            os.chdir(os.path.dirname(d))
            given = spelling.replace("rel", os.path.basename(d))
            o.label("relative-directory")
        elif spelling == "abs/":
            given = d + "/"
        reg = build_registry(given)
        kw_only = get_keywords(given)
        an_ids = {id(f) for f in analyzers}
        searchers = [f for f in reg if id(f) not in an_ids]
        reg_analyzers = [f for f in reg if id(f) in an_ids]
        if sorted(map(id, reg_analyzers)) != sorted(an_ids):
            o.violate("customdir:analyzers-changed", {"in_registry": len(reg_analyzers), "expected": len(analyzers)})
        nonempty = [f for f in case["files"] if f["words"]]
        all_words = [w for f in case["files"] for w in f["words"]] or [b"none"]
        exp = sorted(((f["name"],), tuple(sorted(set(f["words"])))) for f in nonempty)
        for label, ss in (("build_registry", searchers), ("get_keywords", kw_only)):
            got = probe_searchers(ss, all_words)
            if got != exp:
                if len(got) < len(exp):
                    key = "keywords:file-missing"
                elif len(got) > len(exp):
                    key = "keywords:extra-searcher"
                else:
                    key = "keywords:wrong-words-or-type"
                o.violate(key, {"via": label, "got": got, "expected": exp, "files": case["files"]})
                break
        # shipped keywords must be gone: probe with a shipped word
        shipped_hits = [h for s in searchers for h in s(b" VirtualAlloc CreateFileW strlen ") if h.value not in set(all_words)]
        if shipped_hits:
            o.violate("customdir:shipped-keywords-still-present", {"hits": [(h.type, h.value) for h in shipped_hits][:4]})
        o.nontrivial = any(f["sub"] and f["words"] for f in case["files"]) or any(f["blank_lines"] and f["words"] for f in case["files"])
        if any(f["sub"] and f["words"] for f in case["files"]):
            o.label("file-in-subdirectory")
        if any(not f["words"] for f in case["files"]):
            o.label("empty-file")
        names = [f["name"] for f in nonempty]
        if len(set(names)) < len(names):
            o.label("same-name-in-two-directories")
    finally:
        os.chdir(cwd)
        shutil.rmtree(d, ignore_errors=True)
    return o


# ---- the default registry --------------------------------------------------------------------------------
def default_cases():
    return [{"which": "default"}]


def check_default(case) -> Outcome:
    import multidecoder
    from multidecoder.multidecoder import Multidecoder
    from multidecoder.registry import build_registry, get_analyzers

    o = Outcome()
    o.nontrivial = True
    analyzers = get_analyzers()
    an_ids = {id(f) for f in analyzers}
    names = {(f.__module__.rsplit(".", 1)[1], f.__name__) for f in analyzers}
    exp = expected_functions(None, None)
    if names != exp:
        o.violate("default:analyzers:" + ("missing" if exp - names else "extra"), {"missing": sorted(exp - names), "extra": sorted(names - exp)})
    kwdir = os.path.join(os.path.dirname(multidecoder.__file__), "keywords")
    files = []
    for sub, dirs, fs in os.walk(kwdir):
        for fn in fs:
            with open(os.path.join(sub, fn), "rb") as fh:
                words = [w for w in fh.read().splitlines() if w]
            if words:
                files.append((fn, frozenset(words)))
    for label, reg in (("build_registry()", build_registry()), ("Multidecoder().decoders", Multidecoder().decoders)):
        searchers = [f for f in reg if id(f) not in an_ids]
        if len([f for f in reg if id(f) in an_ids]) != len(analyzers):
            o.violate("default:analyzers-not-all-in-registry", {"via": label})
        if len(searchers) != len(files):
            o.violate("default:keyword-searcher-count", {"via": label, "searchers": len(searchers), "non_empty_files": len(files)})
            continue
        got = []
        for s in searchers:
            # probe each searcher with every shipped word on its own line
            pass
        allwords = sorted({w for _, ws in files for w in ws})
        text = b"\n" + b"\n".join(allwords) + b"\n"
        for s in searchers:
            hits = s(text)
            got.append((tuple(sorted({h.type for h in hits})), tuple(sorted({h.value for h in hits}))))
        exp_k = sorted(((fn,), tuple(sorted(ws))) for fn, ws in files)
        if sorted(got) != exp_k:
            gk = {t: frozenset(v) for t, v in got}
            bad = [(fn, sorted(ws - gk.get((fn,), frozenset()))[:3], sorted(gk.get((fn,), frozenset()) - ws)[:3]) for fn, ws in files if gk.get((fn,)) != ws][:4]
            o.violate("default:keyword-searcher-content", {"via": label, "differences": bad})
    o.label("default-registry")
    return o


def units(tier):
    q = tier == "quick"
    return [
        Unit("subsets", "custom", check=check_subset, run=run_subsets, budget=0 if q else 1, scalable=False, exhaustive=True),
        Unit("pairs", "hyp", check=check_subset, strategy=pair_cases, budget=8000 if q else 100000),
        Unit("layouts", "hyp", check=check_layout, strategy=layout_cases, budget=6000 if q else 100000),
        Unit("default", "fixed", check=check_default, cases=default_cases),
    ]
