"""C07 - The depth limit bounds recursion and only ever truncates the tree."""
from __future__ import annotations

from hypothesis import strategies as st

from .. import strategies as S
from ..engine import Table, freeze_node, tables
from ..invariants import Analysis, decoded_rec
from ..observe import CaseTimeout, Recorder, guarded
from ..unit import Outcome, Unit
from . import _engine_common as E

ID = "C07"
RULE = (
    "cases: (a) always-decodable synthetic registries (every value yields a whole-span hit with a new value, variants that "
    "also supply children) x k in -3..12: the recording wrapper counts search passes and the distance of every searched value; "
    "(b) documents (token soups, nested contexts, URLs whose query/path carry further indicators) and synthetic tables, "
    "each scanned with k = -1..6: distance bound on every searched value, every value closer than k was searched, tree(k) embeds order-preservingly in tree(k+1). "
    "Distance = number of decoded ancestors-or-self plus decoder-supplied-child steps. Non-trivial = tree(k) != tree(k+1) for "
    "some tested k (for (a): k >= 1); distinct by case hash."
)
ASSUMPTIONS = [
    "'decoding steps' counts decoded hits and decoder-supplied-child steps alike (the code's and C08's notion of remaining depth)",
    "searched values are mapped to tree nodes by object identity; when several nodes share one value object the smallest distance is used",
]

KS = list(range(-1, 7))


def distances(an: Analysis):
    """sd(node): distance of the node's value from the input, for every node of the tree (keyed by id)"""
    sd = {id(an.root): 0}
    stack = [an.root]
    while stack:
        p = stack.pop()
        for c in p.children:
            h = an.hit_by_id.get(id(c))
            if h is not None and id(c) not in an.supplied_by and not decoded_rec(h):
                sd[id(c)] = sd[id(p)]  # undecoded context: same search pass as its parent
            else:
                sd[id(c)] = sd[id(p)] + 1  # decoded hit or decoder-supplied child: one step further
            stack.append(c)
    return sd


def check_bound(an: Analysis, k, o: Outcome):
    sd = distances(an)
    owners = {}
    for n in [an.root] + [n for n, _, _ in an.nodes]:
        owners.setdefault(id(n.value), []).append(n)
    nreg = max(1, len(an.rec.base))
    passes = 0
    seen_inv = set()
    for i, (text, name) in enumerate(an.rec.calls):
        inv = i // nreg
        if inv in seen_inv:
            continue
        seen_inv.add(inv)
        passes += 1
        cands = owners.get(id(text))
        if not cands:
            o.violate("searched-value-not-in-tree", {"text": text[:60]})
            continue
        d = min(sd[id(n)] for n in cands)
        if not d < k:
            o.violate("searched-beyond-limit", {"k": k, "distance": d, "text": text[:60]})
    if k <= 0 and (an.rec.calls or an.root.children):
        o.violate("k<=0:not-bare-root", {"k": k, "calls": len(an.rec.calls), "children": len(an.root.children)})
    # converse: every value fewer than k steps away was searched - the root, every decoded hit and every decoder-supplied
    # node, unless it carries decoder-supplied children (the engine then descends into those instead). Undecoded contexts
    # belong to their parent's pass. (What surrounds a value - how many contexts enclose it - does not count as a step.)
    searched = {id(t) for t, _ in an.rec.calls}
    for n in [an.root] + [n for n, _, _ in an.nodes]:
        if any(id(c) in an.supplied_by for c in n.children):
            continue
        h = an.hit_by_id.get(id(n))
        is_context = h is not None and id(n) not in an.supplied_by and not decoded_rec(h)
        if n is not an.root and (is_context or (h is None and id(n) not in an.supplied_by)):
            continue
        if sd[id(n)] < k and id(n.value) not in searched:
            o.violate("not-searched-within-limit", {"k": k, "distance": sd[id(n)], "type": n.type, "value": n.value[:60]})
            break
    # structural form: a node that carries engine-attached children was searched, so its distance is < k
    for n in [an.root] + [n for n, _, _ in an.nodes]:
        if any(an.engine_attached(c) for c in n.children):
            # the searched node is n itself or (for contexts) an ancestor with the same sd
            if not sd[id(n)] < k:
                o.violate("attached-children-beyond-limit", {"k": k, "distance": sd[id(n)], "type": n.type})
    return passes


def embeds(a, b) -> bool:
    """tree a (limit k) embeds in tree b (limit k+1): identical node contents, children an order-preserving sub-list"""
    if a[:5] != b[:5]:
        return False
    j = 0
    kb = b[5]
    for ca in a[5]:
        while j < len(kb) and not embeds(ca, kb[j]):
            j += 1
        if j == len(kb):
            return False
        j += 1
    return True


# ---- (a) always-decodable registries ---------------------------------------------------------------
def always_cases():
    return st.fixed_dictionaries(
        {
            "text": st.lists(st.sampled_from(list(b"aAbB")), min_size=1, max_size=6).map(bytes),
            "variant": st.sampled_from(["wrap", "wrapkids", "wrap+inner"]),
            "k": st.integers(-3, 12),
        }
    )


def check_always(case) -> Outcome:
    o = Outcome()
    text, k, variant = case["text"], case["k"], case["variant"]
    rules = {"wrap": (("wrap", 64),), "wrapkids": (("wrapkids", 64),), "wrap+inner": (("wrap", 64), ("inner",))}[variant]
    tab = Table(0, {}, rules)
    rec = Recorder(registry=tab.decoders())
    try:
        root = guarded(10.0, rec.scan, text, k)
    except CaseTimeout:
        return o.violate("always-decodable:does-not-return", {"k": k})
    except RecursionError:
        return o.violate("always-decodable:RecursionError", {"k": k})
    an = Analysis(rec, root, text)
    passes = check_bound(an, k, o)
    if variant in ("wrap", "wrap+inner"):
        exp = max(0, k)
        if passes != exp:
            o.violate("always-decodable:passes!=k", {"k": k, "passes": passes})
    else:
        # with supplied children every decoded hit costs one pass and its child one more step: passes = ceil(k/2)
        exp = max(0, (k + 1) // 2)
        if passes != exp:
            o.violate("always-decodable:passes!=ceil(k/2)", {"k": k, "passes": passes})
    o.nontrivial = k >= 1
    o.label("always:" + variant)
    return o


# ---- (b) k versus k+1 --------------------------------------------------------------------------------
INNER = [b"http://1.2.3.4/evil.exe", b"evil.example.com", b"strlen", b"aHR0cDovL2V2aWwuZXhhbXBsZS5jb20vYS9iLmV4ZQ==", b"C:%5CUsers%5Cbob%5Cevil.dll"]


def url_docs():
    return st.tuples(S.neutral(0, 2), st.sampled_from([b"http://example.com/x", b"https://u:p@10.0.0.7:8080/a/b", b"ftp://files.example.org/pub"]), st.sampled_from([b"?u=", b"/", b"#", b"?a=1&b="]), st.sampled_from(INNER), S.neutral(0, 2)).map(
        lambda t: (t[0] + b" " if t[0] else b"") + t[1] + t[2] + t[3] + (b" " + t[4] if t[4] else b"")
    )


def doc_cases():
    return st.fixed_dictionaries({"data": st.one_of(S.documents(heavy=False), S.nested_docs(), url_docs())})


def table_cases():
    return tables(max_levels=3)


def _series(scan, o):
    trees = []
    ans = []
    for k in KS:
        try:
            rec, root, data = scan(k)
        except CaseTimeout:
            o.exclude("slow-scan(>5s)")
            return None, None
        except Exception as e:
            o.exclude("scan-raised:" + type(e).__name__)
            return None, None
        an = Analysis(rec, root, data)
        check_bound(an, k, o)
        trees.append(freeze_node(root))
    for i in range(len(KS) - 1):
        if not embeds(trees[i], trees[i + 1]):
            o.violate("not-embedded:tree(k)-in-tree(k+1)", {"k": KS[i], "tree_k": trees[i], "tree_k+1": trees[i + 1]})
            break
    diff = [KS[i] for i in range(len(KS) - 1) if trees[i] != trees[i + 1]]
    o.nontrivial = bool(diff)
    for k in diff:
        o.label("differs@k=%d" % k)
    return trees, diff


def check_doc(case) -> Outcome:
    o = Outcome()
    rec = E.default_recorder()
    data = case["data"]

    def scan(k):
        root = guarded(5.0, rec.scan, data, k)
        return rec, root, data

    _series(scan, o)
    return o


def check_table(case) -> Outcome:
    o = Outcome()
    tab = Table.from_case(case["registry"])
    text = case["text"]

    def scan(k):
        rec = Recorder(registry=tab.decoders() or [lambda v: []])
        return rec, rec.scan(text, k), text

    _series(scan, o)
    return o


def units(tier):
    q = tier == "quick"
    return [
        Unit("always", "hyp", check=check_always, strategy=always_cases, budget=4000 if q else 40000),
        Unit("docs", "hyp", check=check_doc, strategy=doc_cases, budget=6000 if q else 100000),
        Unit("tables", "hyp", check=check_table, strategy=table_cases, budget=10000 if q else 200000),
    ]
