"""C13 - Base64, hexadecimal and XOR decodings are bit-exact."""
from __future__ import annotations

import re

from hypothesis import strategies as st

from .. import encoders as X
from .. import strategies as S
from ..observe import CaseTimeout, guarded, locate, walk_iter
from ..unit import Outcome, Unit

ID = "C13"
RULE = (
    "converse cases: payloads of every length 0-64 (all residues mod 3; bytes drawn from all 256 values) encoded by own "
    "table-driven base64 / hex encoders - bare (at the acceptance boundaries: 21/22/24 characters, 6/7 distinct, pure hex, "
    "pure letters, slash-heavy, all padding forms), line-wrapped with every line-break spelling (LF, CR, CRLF, &#13;&#10;, &#xD;&#xA;, a lone escaped CR or LF, an escaped CR followed by a literal LF, escaped + literal CRLF), in the atob / "
    "Base64Decode / FromBase64String / FromHexString call forms with '-bxor N' (N in 0..999) before or after, PowerShell byte "
    "arrays of 501-700 elements with / without key - embedded between non-base64 delimiters; the scan must report one node "
    "with exactly the encoded span, the documented type / label and the payload (or no node for the near-misses). Forward: "
    "every node labelled encoding.base64 / decoded.hexadecimal / encoding.hexidecimal / cipher.xorN / cipher.multibyte_xor / "
    "powershell.bytes in generated token-soup scans is re-derived from the text it covers with own decoders. Non-trivial = "
    "converse case at an acceptance boundary or with length not a multiple of 3 / forward case with at least one such node."
)
ASSUMPTIONS = [
    "known finding K3: an upper-case hex run whose first 20+ characters are all digits is cut by the lower-case branch (triaged by key)",
    "multibyte xor is checked against 'some repeating key of period <= 65' (the call site's max_key_length)",
    "an enclosing decoded result from another decoder counts as shadowed, not failed",
    "base64 forward check: padding characters are ignored and a final 2/3-character quantum is decoded RFC 4648 style",
]

_md = None


def scanner():
    global _md
    if _md is None:
        from multidecoder.multidecoder import Multidecoder

        _md = Multidecoder()
    return _md


def runny(lo, hi):
    """payloads with a long low-variety head (one byte or a short pattern repeated) followed by a varied tail, and the
    mirror image: acceptance rules that look at only part of the text are exposed by these"""
    head = st.tuples(st.binary(min_size=1, max_size=3), st.integers(0, 40)).map(lambda t: (t[0] * 200)[: t[1] * 3])
    tail = st.binary(min_size=0, max_size=24)
    return st.tuples(head, tail, st.booleans()).map(lambda t: ((t[0] + t[1]) if t[2] else (t[1] + t[0]))[: max(hi, 144)]).filter(lambda p: len(p) >= lo)


def payloads(lo=0, hi=64):
    return st.one_of(
        runny(lo, hi),st.binary(min_size=lo, max_size=hi), st.binary(min_size=lo, max_size=hi), st.lists(st.sampled_from(list(b"abcdefghij klmnopqrstuvwxyz0123456789./:")), min_size=lo, max_size=hi).map(bytes))


PRE = [b"", b"lorem ", b"lorem ipsum; ", b"x = ", b"quux\t"]
SUF = [b"", b" dolor", b"; amet", b"\tzzyzx"]


def embed_st():
    return st.tuples(st.sampled_from(PRE), st.sampled_from(SUF))


# ---- converse: bare base64 --------------------------------------------------------------------------
def b64_cases():
    return st.fixed_dictionaries({"payload": payloads(12, 64), "wrap": st.sampled_from(["none", "none", "lf", "crlf", "html-dec", "html-hex", "cr", "html-cr", "html-cr+lf", "html-xcr+lf", "html-lf", "html-xlf", "html-dec+crlf"]), "width": st.sampled_from([4, 8, 20, 76]), "embed": embed_st(), "mutate": st.sampled_from(["none", "none", "none", "strip-pad", "hexonly", "letters", "slashes", "fewdistinct", "near", "near"]), "near": near_texts()})


NEAR_BASES = {"hex": b"0123456789abcdef", "HEX": b"0123456789ABCDEF", "letters": b"abcdefghijklmnopqrstuvwxyzABCDEFGHIJKLMNOPQRSTUVWXYZ", "digits": b"0123456789"}
NEAR_ODD = list(b"+/xXgGzZ0a9F")


def near_texts():
    """base64 text built directly: a run over a sub-alphabet that one of the rejection rules names (hex digits, letters,
    digits) with 0-2 characters from outside it at generated positions (the first two positions are favoured: '+', '0x')"""
    return st.tuples(
        st.sampled_from(sorted(NEAR_BASES)),
        st.integers(6, 12),
        st.lists(st.integers(0, 255), min_size=48, max_size=48),
        st.lists(st.tuples(st.sampled_from([0, 0, 1, 1, 2, 5, 11, 22, 23, 30, 47]), st.sampled_from(NEAR_ODD)), max_size=2),
    )


def build_near(spec) -> bytes:
    base, quanta, idx, odd = spec
    alpha = NEAR_BASES[base]
    t = bytearray(alpha[i % len(alpha)] for i in idx[: quanta * 4])
    for pos, ch in odd:
        t[pos % len(t)] = ch
    return bytes(t)


def wrap_text(t: bytes, kind: str, width: int) -> bytes:
    if kind == "none":
        return t
    sep = {
        "lf": b"\n",
        "crlf": b"\r\n",
        "html-dec": b"&#13;&#10;",
        "html-hex": b"&#xD;&#xA;",
        "cr": b"\r",
        "html-cr": b"&#13;",
        "html-cr+lf": b"&#13;\n",
        "html-xcr+lf": b"&#xD;\n",
        "html-lf": b"&#10;",
        "html-xlf": b"&#xA;",
        "html-dec+crlf": b"&#13;&#10;\r\n",
    }[kind]
    body = t.rstrip(b"=")
    pad = t[len(body) :]
    lines = [body[i : i + width] for i in range(0, len(body), width)]
    # every wrapped line must keep at least 4 characters and the tail at least 2 (documented shape)
    if len(lines) >= 2 and len(lines[-1]) < 4:
        lines[-2:] = [lines[-2] + lines[-1]]
    return sep.join(lines) + pad


def check_b64(case) -> Outcome:
    o = Outcome()
    p = case["payload"]
    mut = case["mutate"]
    if mut == "hexonly":
        p = bytes.fromhex("d76df8e7aefc" * 3)  # base64 text of these bytes consists of hex digits only
        p = X.b64decode_chars(b"deadbeefcafe0123456789ab") or p
    elif mut == "letters":
        p = X.b64decode_chars(b"SomeCamelCaseIdentifierNameXYZab")
    elif mut == "slashes":
        p = X.b64decode_chars(b"ab/cd/ef/gh/ij/kl/mn/op/qr/st/uv")
    elif mut == "fewdistinct":
        p = X.b64decode_chars(b"ABABABCDCDCDABABABCDCDCD")
    elif mut == "near":
        p = X.b64decode_chars(build_near(case["near"]))
    t = X.b64encode(p)
    if mut == "near":
        assert t == build_near(case["near"])
    if mut == "strip-pad":
        t = t.rstrip(b"=")
    acceptable = X.bare_b64_acceptable(t)
    wrapped = wrap_text(t, case["wrap"], case["width"]) if acceptable else t
    pre, suf = case["embed"]
    text = pre + wrapped + suf
    a, b = len(pre), len(pre) + len(wrapped)
    try:
        root = guarded(5.0, scanner().scan, text, 1)
    except CaseTimeout:
        return o.exclude("slow-scan")
    except Exception as e:
        return o.exclude("scan-raised:" + type(e).__name__ + " (C01's business)")
    if acceptable:
        st_, info = locate(root, a, b, "", "encoding.base64", p)
        if st_ == "missing":
            o.violate("b64:bare:not-decoded-as-one-unit" + ("" if case["wrap"] == "none" else ":wrapped-" + case["wrap"]), {"text": text, "span": [a, b], "payload": p, "nodes": info})
        elif st_ == "shadowed":
            o.exclude("shadowed by an enclosing decoded result")
        o.label("b64:accepted")
        if case["wrap"] != "none":
            o.label("b64:wrapped-" + case["wrap"])
        if len(p) % 3:
            o.label("b64:len%%3=%d" % (len(p) % 3))
        body = t.rstrip(b"=")
        o.nontrivial = len(p) % 3 != 0 or len(body) in (22, 23, 24) or len(set(t)) in (7, 8)
    else:
        bad = [n for n, _, _ in walk_iter(root) if n.obfuscation == "encoding.base64" and n.type == ""]
        if bad and mut != "none":
            o.violate("b64:bare:accepted-outside-rules:" + mut, {"text": text, "node": [(n.start, n.end, n.value) for n in bad]})
        elif bad:
            o.violate("b64:bare:accepted-outside-rules", {"text": text, "node": [(n.start, n.end, n.value) for n in bad]})
        o.label("b64:rejected:" + mut)
        o.nontrivial = True
    return o


# ---- converse: call forms, hex, xor -------------------------------------------------------------------
def call_cases():
    return st.fixed_dictionaries(
        {
            "payload": payloads(1, 48),
            "form": st.sampled_from(["atob", "Base64Decode", "FromBase64String", "FromHexString", "hex"]),
            "v": st.lists(st.integers(0, 7), min_size=1, max_size=6),
            "xor": st.one_of(st.none(), st.none(), st.integers(0, 999)),
            "xor_where": st.sampled_from(["after", "before"]),
            "xor_spelling": st.sampled_from([b"-bxor ", b"-bxor", b"-xor ", b"-BXOR  "]),
            "embed": embed_st(),
        }
    )


def check_call(case) -> Outcome:
    o = Outcome()
    p = case["payload"]
    enc = X.ENCODERS[case["form"]](p, X.V(case["v"]))
    if enc is None:
        return o.exclude("payload outside the encoder's documented domain")
    blob, typ, obf, val, _ = enc
    pre, suf = case["embed"]
    key = case["xor"]
    xor_txt = b""
    if key is not None and case["form"] in ("FromBase64String", "FromHexString"):
        xor_txt = case["xor_spelling"] + b"%d" % key
    if xor_txt and case["xor_where"] == "before":
        text = pre + xor_txt + b" " + blob + suf
        a = len(pre) + len(xor_txt) + 1
    else:
        text = pre + blob + ((b" " + xor_txt) if xor_txt else b"") + suf
        a = len(pre)
    b = a + len(blob)
    try:
        root = guarded(5.0, scanner().scan, text, 1)
    except CaseTimeout:
        return o.exclude("slow-scan")
    except Exception as e:
        return o.exclude("scan-raised:" + type(e).__name__ + " (C01's business)")
    st_, info = locate(root, a, b, typ, obf, val)
    if st_ == "missing":
        return o.violate("call:%s:not-decoded-as-one-unit" % case["form"], {"text": text, "span": [a, b], "payload": p, "nodes": info})
    if st_ == "shadowed":
        return o.exclude("shadowed by an enclosing decoded result")
    node = info
    kids = [(c.type, c.obfuscation, c.value, c.start, c.end) for c in node.children if c.obfuscation.startswith("cipher.")]
    if xor_txt:
        if 0 < key <= 255:
            exp = [("powershell.bytes", "cipher.xor%d" % key, bytes(x ^ key for x in p), 0, len(p))]
            if kids != exp:
                o.violate("xor:single-byte-child", {"text": text, "got": kids, "expected": exp})
            o.label("xor:key<=255")
        else:
            if kids:
                o.violate("xor:child-for-non-byte-key", {"text": text, "key": key, "got": kids})
            o.label("xor:key=0" if key == 0 else "xor:key>255")
    elif kids:
        o.violate("xor:child-without-key", {"text": text, "got": kids})
    o.label("call:" + case["form"])
    o.nontrivial = len(p) % 3 != 0 or bool(xor_txt)
    return o


# ---- converse: PowerShell byte arrays -------------------------------------------------------------------
def psbytes_cases():
    return st.fixed_dictionaries(
        {
            "payload": st.lists(st.sampled_from(list(b"abcdefghij klmnopqrstuvwxyz0123456789./:\x00\xff\x80")), min_size=1, max_size=60).map(bytes),
            "v": st.lists(st.integers(0, 7), min_size=1, max_size=6),
            "xor": st.one_of(st.none(), st.integers(0, 999)),
            "count": st.sampled_from([499, 500, 501, 502, 600, 700]),
            "embed": embed_st(),
        }
    )


def check_psbytes(case) -> Outcome:
    o = Outcome()
    p = case["payload"]
    n = case["count"]
    full = (p + X.FILLER * 30)[:n]
    v = X.V(case["v"])
    pat = [v.num(2) for _ in range(3)]
    sep = v.pick([b", ", b",", b",  "])
    blob = sep.join((b"0x%02x" % c) if pat[i % 3] else (b"%d" % c) for i, c in enumerate(full))
    pre, suf = case["embed"]
    key = case["xor"]
    xor_txt = (b" -bxor %d" % key) if key is not None else b""
    text = pre + blob + xor_txt + suf
    a, b = len(pre), len(pre) + len(blob)
    try:
        root = guarded(8.0, scanner().scan, text, 1)
    except CaseTimeout:
        return o.exclude("slow-scan")
    except Exception as e:
        return o.exclude("scan-raised:" + type(e).__name__ + " (C01's business)")
    if n < 501:
        bad = [x for x, _, _ in walk_iter(root) if x.type == "powershell.bytes"]
        if bad:
            o.violate("psbytes:accepted-below-501-elements", {"count": n})
        o.label("psbytes:near-miss")
        o.nontrivial = True
        return o
    st_, info = locate(root, a, b, "powershell.bytes", "", full)
    if st_ == "missing":
        return o.violate("psbytes:not-decoded-as-one-unit", {"span": [a, b], "count": n, "nodes": info, "text_head": text[:80]})
    if st_ == "shadowed":
        return o.exclude("shadowed by an enclosing decoded result")
    node = info
    kids = [(c.type, c.obfuscation, c.value, c.start, c.end) for c in node.children if c.obfuscation.startswith("cipher.")]
    if key is not None and 0 < key <= 255:
        exp = [("powershell.bytes", "cipher.xor%d" % key, bytes(x ^ key for x in full), 0, len(full))]
        if kids != exp:
            o.violate("xor:single-byte-child:psbytes", {"key": key, "got": [(k[0], k[1], k[2][:20], k[3], k[4]) for k in kids]})
    elif key == 0:
        # '-bxor 0' states no usable key: the key-guessing form may apply (any repeating key) or no child at all
        for k in kids:
            if k[1] != "cipher.multibyte_xor" or not repeating_key_ok(full, k[2]):
                o.violate("xor:key0-child-not-a-repeating-key", {"got": [(k[0], k[1]) for k in kids]})
    elif key is not None and kids:
        o.violate("xor:child-for-non-byte-key", {"key": key, "got": [(k[0], k[1]) for k in kids]})
    o.label("psbytes:%d" % n)
    o.nontrivial = True
    return o


# ---- forward: every labelled node ---------------------------------------------------------------------
def b64_chars_of(original: bytes, typ: str):
    if typ == "":
        t = re.sub(rb"&#(?:x[a-fA-F0-9]{1,4}|\d{1,4});", b"", original)
        t = t.replace(b"<\x00  \x00", b"").replace(b"\r", b"").replace(b"\n", b"")
    else:
        m = re.search(rb"['\"]([A-Za-z0-9+/]+=?=?)['\"]", original)
        if not m:
            return None
        t = m.group(1)
    t = t.rstrip(b"=")
    if not re.fullmatch(rb"[A-Za-z0-9+/]*", t):
        return None
    return t


def repeating_key_ok(parent: bytes, child: bytes, max_period=65) -> bool:
    if len(parent) != len(child):
        return False
    d = bytes(a ^ b for a, b in zip(parent, child))
    for per in range(1, max_period + 1):
        if all(d[i] == d[i % per] for i in range(len(d))):
            return True
    return False


def forward_node(n, parent, o: Outcome):
    ob = n.obfuscation
    if ob == "encoding.base64":
        chars = b64_chars_of(n.original, n.type)
        exp = X.b64decode_chars(chars) if chars is not None else None
        if exp is None:
            o.violate("fwd:base64:text-is-not-base64", {"type": n.type, "original": n.original[:120]})
        elif n.value != exp:
            o.violate("fwd:base64:value", {"type": n.type, "original": n.original[:120], "got": n.value[:80], "expected": exp[:80]})
        return True
    if ob in ("decoded.hexadecimal", "encoding.hexidecimal"):
        org = n.original
        if ob == "encoding.hexidecimal":
            m = re.search(rb"'([0-9A-Fa-f]+)'", org)
            org = m.group(1) if m else b"?"
        exp = X.hexdecode(re.sub(rb"[\s,]", b"", org))
        if exp is None or n.value != exp:
            o.violate("fwd:hex:value", {"original": n.original[:120], "got": n.value[:60]})
        return True
    if ob.startswith("cipher.xor"):
        try:
            key = int(ob[len("cipher.xor") :])
        except ValueError:
            key = -1
        if not 0 <= key <= 255 or n.value != bytes(c ^ key for c in parent.value):
            o.violate("fwd:xor:single-byte", {"label": ob, "parent": parent.value[:40], "child": n.value[:40]})
        return True
    if ob == "cipher.multibyte_xor":
        if not repeating_key_ok(parent.value, n.value):
            o.violate("fwd:xor:multibyte-not-a-repeating-key", {"parent": parent.value[:40], "child": n.value[:40]})
        return True
    if n.type == "powershell.bytes" and ob == "" and parent.type != "powershell.bytes":
        try:
            exp = bytes(int(x.strip(), 16 if x.strip().lower().startswith(b"0x") else 10) for x in n.original.split(b","))
        except ValueError:
            exp = None
        if exp is None or n.value != exp:
            o.violate("fwd:psbytes:value", {"original": n.original[:80], "got": n.value[:40]})
        return True
    return False


def fwd_docs():
    frag = st.one_of(S.frag_base64(), S.frag_base64(), S.frag_hex(), S.frag_hex(), S.fragment(3), S.neutral(1, 2))
    light = st.lists(st.tuples(frag, st.sampled_from([b" ", b"\n", b"; ", b"'", b"("])).map(b"".join), min_size=1, max_size=4).map(b"".join)
    return st.one_of(light, light, light, S.frag_psbytes())


def check_forward(case) -> Outcome:
    o = Outcome()
    try:
        root = guarded(8.0, scanner().scan, case["data"], case["depth"])
    except CaseTimeout:
        return o.exclude("slow-scan")
    except Exception as e:
        return o.exclude("scan-raised:" + type(e).__name__)
    cnt = 0
    for n, p, _ in walk_iter(root):
        if not (0 <= n.start <= n.end <= len(p.value)):
            continue
        if forward_node(n, p, o):
            cnt += 1
    o.nontrivial = cnt > 0
    if cnt:
        o.label("fwd:labelled-node")
    return o


def fwd_cases():
    return st.fixed_dictionaries({"data": S.cached("c13.fwd", fwd_docs), "depth": st.sampled_from([1, 2, 10])})


# ---- hex acceptance (incl. known finding K3) --------------------------------------------------------------
def hexrun_cases():
    return st.fixed_dictionaries({"payload": st.binary(min_size=8, max_size=40), "upper": st.booleans(), "digits_prefix": st.integers(0, 12), "embed": embed_st(), "glue": st.sampled_from([None, None, 0, 1, 2, 3, 4, 5])})


# text glued directly in front of a run: ends in a hex letter of the *other* case (the run still starts right after it), or in
# a letter that is no hex digit at all
GLUE_BEFORE_LOWER = [b"SHELLCODE", b"$hexA", b"BLOB_B", b"xF", b"TAG", b"junk"]
GLUE_BEFORE_UPPER = [b"payload", b"$buf", b"dataa", b"Xe", b"TAG", b"junk"]


def check_hexrun(case) -> Outcome:
    o = Outcome()
    p = bytes([0x12, 0x34, 0x56, 0x78, 0x90] * 3)[: case["digits_prefix"]] + case["payload"]
    t = X.hexencode(p, case["upper"])
    pre, suf = case["embed"]
    if case.get("glue") is not None:
        if re.match(rb"[0-9]{18}", t):
            return o.exclude("glued hex letter followed by 18+ digits: the other-case alternative may claim it")
        pre = pre + (GLUE_BEFORE_UPPER if case["upper"] else GLUE_BEFORE_LOWER)[case["glue"]]
        o.label("hex:glued-after-letter")
    text = pre + t + suf
    a, b = len(pre), len(pre) + len(t)
    try:
        root = guarded(5.0, scanner().scan, text, 1)
    except CaseTimeout:
        return o.exclude("slow-scan")
    except Exception as e:
        return o.exclude("scan-raised:" + type(e).__name__ + " (C01's business)")
    if len(p) < 10:
        bad = [n for n, _, _ in walk_iter(root) if n.obfuscation == "decoded.hexadecimal"]
        if bad:
            o.violate("hex:accepted-below-10-pairs", {"text": text})
        o.label("hex:near-miss")
        o.nontrivial = True
        return o
    st_, info = locate(root, a, b, "", "decoded.hexadecimal", p)
    if st_ == "missing":
        if case["upper"] and X.k3_shape(t):
            o.violate("hex:upper-case-run-with-leading-digits-cut", {"text": text, "nodes": info})
        else:
            o.violate("hex:run-not-decoded-as-one-unit", {"text": text, "span": [a, b], "nodes": info})
    elif st_ == "shadowed":
        o.exclude("shadowed by an enclosing decoded result")
    o.label("hex:upper" if case["upper"] else "hex:lower")
    o.nontrivial = len(p) in (10, 11) or case["digits_prefix"] >= 10
    return o


def units(tier):
    q = tier == "quick"
    return [
        Unit("b64", "hyp", check=check_b64, strategy=b64_cases, budget=16000 if q else 300000),
        Unit("calls", "hyp", check=check_call, strategy=call_cases, budget=16000 if q else 300000),
        Unit("hexruns", "hyp", check=check_hexrun, strategy=hexrun_cases, budget=10000 if q else 200000),
        Unit("psbytes", "hyp", check=check_psbytes, strategy=psbytes_cases, budget=2400 if q else 40000),
        Unit("forward", "hyp", check=check_forward, strategy=fwd_cases, budget=12000 if q else 200000),
    ]
