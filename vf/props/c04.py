"""C04 - Context preservation: nesting never changes which bytes a result denotes."""
from __future__ import annotations

from ..invariants import c04
from ..unit import Outcome, Unit
from . import _engine_common as E

ID = "C04"
RULE = (
    "case = (document, depth) with the shipped registry, or (text, synthetic table registry, depth); the recording wrapper "
    "snapshots (text searched, start, end) of every hit before the engine shifts it, and every kept hit is compared with its "
    "final node: sum of the starts of enclosing contexts up to the node whose value is the searched text == recorded start, "
    "equal length, original slice == text[a:b] ignoring ASCII case. Non-trivial = some kept hit is nested under at least one "
    "context with non-zero offset; classes: nested under >= 2 contexts, decoded hit inside a context."
)
ASSUMPTIONS = [
    "hits are identified by object identity (a decoder returning one object twice is out of scope)",
    "hits that are not a valid interval of the searched text (known finding K1: end < start) are skipped and counted",
]


def _check(an, o):
    if an is None:
        return o
    v, stats = c04(an)
    for key, detail in v:
        o.violate(key, detail)
    o.nontrivial = stats["nested"] > 0
    if stats["nested"]:
        o.label("nested-under-context-offset>0")
    if stats["nested2"]:
        o.label("nested-under>=2-contexts")
    if stats["decoded_in_context"]:
        o.label("decoded-hit-inside-context")
    if stats["oob_skipped"]:
        o.exclude("hit-not-a-valid-interval(K1)")
    return o


def check_doc(case) -> Outcome:
    o = Outcome()
    return _check(E.analyse_doc(case, o), o)


def check_table(case) -> Outcome:
    o = Outcome()
    return _check(E.analyse_table(case, o), o)


def units(tier):
    q = tier == "quick"
    return [
        Unit("docs", "hyp", check=check_doc, strategy=E.doc_cases, budget=20000 if q else 400000),
        Unit("nested", "hyp", check=check_doc, strategy=E.nested_cases, budget=10000 if q else 150000),
        Unit("tables", "hyp", check=check_table, strategy=E.table_cases, budget=30000 if q else 400000),
    ]
