"""C11 - Plain indicators are found at any offset with exact span and canonical value."""
from __future__ import annotations

import re

from hypothesis import strategies as st

from .. import netref as R
from .. import strategies as S
from ..observe import CaseTimeout, guarded, locate
from ..unit import Outcome, Unit
from . import c12

ID = "C11"
RULE = (
    "cases: one indicator instance from each indicator grammar (canonical IPv4; LDH domain >= 7 characters under a TLD drawn "
    "from the whole IANA table, in lower / upper / title case; http/https/ftp URL; e-mail; POSIX path; Windows path from C12's "
    "prefix x segment generator; .exe / .dll name; CreateObject( ... ) with balanced nested parentheses and quoted arguments; "
    "generated PE32 / PE32+ image with 1-4 sections) embedded TWICE: between two independently drawn neutral surroundings "
    "(prefix of 0 .. 16 KB of neutral words, delimiter space / LF / TAB / CRLF, neutral suffix) - both scans must contain a "
    "node with exactly the indicator's absolute span, the documented type and the canonical value. Non-trivial = offset > 0 "
    "and non-empty suffix in at least one embedding; distinct by case hash. Per-kind counts are reported."
)
ASSUMPTIONS = [
    "documented false-positive heuristics are excluded by construction and counted: domain_is_false_positive shapes, IPs ending .0 / .255 / all-zero, the length-byte (Pascal string) trim of URLs",
    "for .dll names both executable.filename and executable.library.filename are accepted (the code defines both, the statement does not say which)",
    "an enclosing decoded result from another decoder counts as shadowed, not failed",
]

_md = None


def scanner():
    global _md
    if _md is None:
        from multidecoder.multidecoder import Multidecoder

        _md = Multidecoder()
    return _md


LD = b"abcdefghijklmnopqrstuvwxyz0123456789"
_tld_list = None


def tld_list():
    global _tld_list
    if _tld_list is None:
        _tld_list = sorted(t.lower() for t in R.tlds())
    return _tld_list


def word(lo, hi, alpha=LD):
    return st.lists(st.sampled_from(list(alpha)), min_size=lo, max_size=hi).map(bytes)


@st.composite
def surround(draw):
    n = draw(st.one_of(st.integers(0, 6), st.integers(0, 6), st.sampled_from([40, 150, 200, 400, 700, 1500, 2500])))
    words = draw(st.lists(st.sampled_from(S.WORDS), min_size=min(n, 6), max_size=min(n, 6)))
    pre = b" ".join(words)
    if n > 6:
        filler = (b" ".join(S.WORDS) + b" ") * (n // 6)
        pre = filler + pre
    d1 = draw(st.sampled_from([b" ", b"\n", b"\t", b"\r\n"]))
    d2 = draw(st.sampled_from([b" ", b"\n", b"\t", b"\r\n"]))
    suf = draw(S.neutral(0, 3))
    decoy = draw(st.sampled_from([0, 0, 0, 1, 2, 3]))  # an earlier, differently-cased spelling of the same indicator in the prefix
    return (pre + d1 if pre else draw(st.sampled_from([b"", d1])), (d2 + suf) if suf else draw(st.sampled_from([b"", d2])), decoy)


@st.composite
def indicator(draw):
    kind = draw(st.sampled_from(["ip", "domain", "domain", "url", "email", "posix", "winpath", "filename", "createobject", "pe"]))
    if kind == "ip":
        a, b, c = draw(st.integers(0, 255)), draw(st.integers(0, 255)), draw(st.integers(0, 255))
        d = draw(st.integers(1, 254))
        v = b"%d.%d.%d.%d" % (a, b, c, d)
        return {"kind": kind, "text": v, "types": ["network.ip"], "value": v}
    if kind in ("domain", "email", "url"):
        tld = draw(st.sampled_from(tld_list()))
        labels = draw(st.lists(st.tuples(word(1, 8), st.booleans()).map(lambda t: (t[0][:1] + b"-" + t[0][1:]) if t[1] and len(t[0]) > 2 else t[0]), min_size=1, max_size=3))
        dom = b".".join(labels + [tld])
        style = draw(st.integers(0, 5))
        if style == 4:
            dom = dom.upper()
        elif style == 5:
            dom = b".".join(x.capitalize() for x in dom.split(b"."))
        if kind == "domain":
            return {"kind": kind, "text": dom, "types": ["network.domain"], "value": dom}
        if kind == "email":
            local = draw(word(3, 8, LD + b"._"))
            if not local[:1].isalnum():
                local = b"a" + local
            v = local + b"@" + dom
            return {"kind": kind, "text": v, "types": ["network.email"], "value": v, "domain": dom}
        dom = dom.lower()
        tail = draw(st.sampled_from([b"", b"/", b"/{a}/{b}.html", b"/{a}?{b}={a}", b":8080/{a}", b"/{a}/{b}/", b"/{a}#{b}", b"/archive/item-0000000000000000000000000000000000000000.zip", b"/{a}/000000000000000000000000000000/{b}"]))
        tail = tail.replace(b"{a}", draw(word(1, 5))).replace(b"{b}", draw(word(1, 5)))
        v = draw(st.sampled_from([b"http", b"https", b"ftp"])) + b"://" + dom + tail
        return {"kind": kind, "text": v, "types": ["network.url"], "value": v, "domain": dom}
    if kind == "posix":
        v = draw(st.sampled_from([b"", b".", b".."])) + b"/" + b"/".join(draw(st.lists(word(3, 8, LD + b"_"), min_size=1, max_size=3))) + b"/" + draw(word(3, 8, LD + b"_."))
        return {"kind": kind, "text": v, "types": ["path"], "value": v}
    if kind == "winpath":
        return {"kind": kind, "parts": draw(S.cached("c12.path_parts", c12.path_parts))}
    if kind == "filename":
        v = draw(word(1, 8, LD + b"_")) + draw(st.sampled_from([b".exe", b".dll", b".EXE", b".Dll"]))
        return {"kind": kind, "text": v, "types": ["executable.filename", "executable.library.filename"], "value": v}
    if kind == "createobject":
        toks = draw(st.lists(st.sampled_from([b'"WScript.Shell"', b"(", b")", b"x", b" , ", b"'a b'", b"{", b"]"]), max_size=7))
        out = b""
        bal = 0
        for t in toks:
            if t == b")":
                if bal == 0:
                    continue
                bal -= 1
            elif t == b"(":
                bal += 1
            out += t
        out += b")" * bal
        v = draw(st.sampled_from([b"CreateObject(", b"createobject(", b"CREATEOBJECT("])) + out + b")"
        return {"kind": kind, "text": v, "types": ["vba.function.createobject"], "value": v}
    return {"kind": "pe", "pe": draw(S.pe_params(allow_damage=False))}


def cases():
    return st.fixed_dictionaries({"ind": S.cached("c11.indicator", indicator), "s1": surround(), "s2": surround()})


def case_variant(blob: bytes, style: int) -> bytes:
    cnt = [style]

    def f(m):
        cnt[0] += 1
        w = m.group()
        if style == 3:
            return w.upper()
        return w[:1].upper() + w[1:].lower() if cnt[0] % 2 == 0 else w.lower()

    return re.sub(rb"[A-Za-z][A-Za-z0-9-]*", f, blob)


def materialise(ind):
    """-> (text, accepted types, canonical value) or None when excluded"""
    k = ind["kind"]
    if k == "winpath":
        p = ind["parts"]
        prefix, typ, protected, rooted, host = c12._prefix_info(p["prefix"])
        segs = list(p["segments"])
        depth = 0
        for i, s in enumerate(segs):
            if s == b"..":
                if depth <= protected and protected:
                    return None
                depth = max(0, depth - 1)
            elif s == b".":
                if i < protected:
                    return None
            else:
                depth += 1
        if protected and (not segs or segs[0] in (b".", b"..")):
            return None
        raw = prefix + b"\\".join(segs) + b"\\" + p["filename"]
        return raw, [typ], R.win_normalise(prefix, protected, rooted, segs + [p["filename"]])
    if k == "pe":
        pe = S.build_pe(ind["pe"])
        return pe, ["pe_file"], pe
    return ind["text"], ind["types"], ind["value"]


def check(case) -> Outcome:
    o = Outcome()
    ind = case["ind"]
    k = ind["kind"]
    m = materialise(ind)
    if m is None:
        return o.exclude("winpath: '..' reaches a protected component (ambiguous reading)")
    blob, types, value = m
    if k in ("domain", "email", "url"):
        from multidecoder.decoders.network import domain_is_false_positive

        dom = ind.get("domain", ind.get("text"))
        if k == "domain" and len(blob) < 7:
            return o.exclude("domain shorter than 7 characters")
        if k == "domain" and domain_is_false_positive(dom):
            return o.exclude("documented false-positive shape (domain_is_false_positive)")
    if k == "ip" and all(c in b"0." for c in blob):
        return o.exclude("all-zero IP")
    nt = False
    for pre, suf, decoy in (case["s1"], case["s2"]):
        if decoy and k in ("domain", "email", "url", "filename", "posix"):
            # same indicator, other letter case (per word / label), a few neutral words earlier: what is found at the real
            # position must not depend on it
            pre = case_variant(blob, decoy) + b" lorem ipsum " + pre
            o.label("earlier-case-variant")
        if decoy and k == "createobject":
            # an earlier call that is never closed (a comment, a truncated line): later well-formed calls are still reported
            pre = [b"' CreateObject( takes a ProgID\n", b"x = createobject(\"a(\" : ", b"CREATEOBJECT( "][decoy - 1] + pre
            o.label("earlier-unclosed-call")
        if k == "url" and pre:
            prev = pre[-1]
            ctx10 = pre[-10:]
            # documented heuristic (Pascal string in a PE file): the byte before the URL, read as a length, indexes a '0'
            # AND the ten bytes before the URL are not printable ASCII (a space is printable, TAB / LF / CR are not)
            if blob[prev : prev + 1] == b"0" and not (ctx10.isascii() and ctx10.decode("ascii").isprintable()):
                o.exclude("documented heuristic: URL preceded by a length byte after non-printable bytes")
                continue
        if k == "pe" and suf[:1] not in (b"", b" ", b"\n", b"\t", b"\r"):
            continue
        text = pre + blob + suf
        a, b = len(pre), len(pre) + len(blob)
        try:
            root = guarded(10.0, scanner().scan, text, 3)
        except CaseTimeout:
            o.exclude("slow-scan")
            continue
        except Exception as e:
            o.exclude("scan-raised:" + type(e).__name__ + " (C01's business)")
            continue
        found = None
        last = None
        for t in types:
            st_, info = locate(root, a, b, t, None, value)
            if st_ == "found":
                found = info
                break
            last = (st_, info)
        if found is None:
            if last[0] == "shadowed":
                o.exclude("shadowed by an enclosing decoded result")
            else:
                cls = "offset>512" if a > 512 else ("offset>0" if a > 0 else "offset=0")
                o.violate("%s:not-found-with-exact-span-type-value:%s" % (k, cls), {"kind": k, "offset": a, "indicator": blob[:120], "delim_before": pre[-2:], "delim_after": suf[:2], "overlapping": last[1]})
        elif k in ("domain", "ip", "email", "posix", "filename", "createobject") and found.obfuscation not in ("", "MixedCase"):
            o.violate("%s:unexpected-obfuscation-label" % k, {"label": found.obfuscation})
        if a > 0 and suf:
            nt = True
    o.nontrivial = nt
    o.label("kind:" + k)
    if max(len(case["s1"][0]), len(case["s2"][0])) > 512:
        o.label("offset>512")
    return o


def units(tier):
    q = tier == "quick"
    return [Unit("indicators", "hyp", check=check, strategy=cases, budget=14000 if q else 300000)]
