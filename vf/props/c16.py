"""C16 - Shell commands are delimited and de-escaped by cmd.exe rules."""
from __future__ import annotations

import base64
import re

from hypothesis import strategies as st

from .. import strategies as S
from ..observe import CaseTimeout, abs_nodes, guarded
from ..unit import Outcome, Unit

ID = "C16"
RULE = (
    "cases: (1) command texts over the token grammar {^, \", CR, LF, CRLF, ^CRLF, parens, &, words} compared with a reference "
    "cmd.exe caret stripper written from the statement (inputs with a caret before a bare CR are outside the statement: only "
    "totality is checked); (2) cmd tokens in all spellings of the command token followed by such texts, embedded after "
    "opening parentheses / before NUL, compared with the reference span rule (first unbalanced ')', else NUL, else end), the "
    "reference de-escaping of exactly that span (modulo whitespace when the stray-quote repair applies) and the label rule; "
    "(3) PowerShell invocations built from token x value-less switches x every prefix of -encodedcommand x -// style x "
    "quoting x caret placement x base64(UTF-16LE script), in four surroundings: expected span and '... -Command <script>' "
    "value by construction; (4) un-encoded PowerShell in double quotes / single quotes / FOR-loop clause / unterminated / at "
    "start of text. Non-trivial = the text contains a caret, quote, CR or parenthesis (1,2) / every generated invocation (3,4); "
    "distinct by case hash."
)
ASSUMPTIONS = [
    "parentheses are counted wherever they occur (the statement does not exempt quoted parentheses)",
    "when the stray-quote repair applies the value is compared modulo runs of whitespace (the statement does not say how the tokens are re-joined)",
    "value-less switches may be rendered in - or / style in the result (the statement does not say); the encoded-command switch and its argument must be replaced by -Command <script>",
    "known finding K1: an un-quoted powershell token at offset > 0 without encoded argument gets end = len(text) - start",
]


# -------------------------------------------------------------------------------------------------
# reference caret stripper (from the statement)
# -------------------------------------------------------------------------------------------------
def ref_strip(cmd: bytes):
    """returns the de-escaped text, or None when the input contains an un-quoted caret before a CR that is not followed by LF
    (outside the statement)"""
    out = bytearray()
    i = 0
    inq = False
    n = len(cmd)
    while i < n:
        c = cmd[i]
        if c == 0x5E and not inq:
            if i + 1 >= n:
                break  # trailing caret is dropped
            if cmd[i + 1] == 0x0D:
                if cmd[i + 1 : i + 3] != b"\r\n":
                    return None
                i += 3  # caret, CR and LF vanish ...
                if i < n:
                    out.append(cmd[i])  # ... and the character after them is kept literally
                    i += 1
                continue
            out.append(cmd[i + 1])  # next character kept literally
            i += 2
            continue
        if c == 0x22:
            inq = not inq
        elif c == 0x0D:
            inq = False
        out.append(c)
        i += 1
    return bytes(out)


CARET_TOK = [b"a", b"b", b" ", b"^", b'"', b"\r\n", b"\n", b"(", b")", b"^\r\n", b"&", b"x", b"^^", b'^"', b"\r", b"'", b"e^cho"]


def caret_cases():
    return st.lists(st.sampled_from(CARET_TOK), max_size=12).map(lambda ts: {"text": b"".join(ts)})


def check_carets(case) -> Outcome:
    from multidecoder.decoders.shell import deobfuscate_cmd, strip_carets

    o = Outcome()
    s = case["text"]
    exp = ref_strip(s)
    try:
        got = strip_carets(s)
        got2, label = deobfuscate_cmd(s)
    except Exception as e:
        return o.violate("strip_carets:raises:" + type(e).__name__, {"text": s})
    if exp is None:
        return o.exclude("caret before a bare CR (outside the statement)")
    if got != exp:
        key = "strip_carets:differs"
        if b"^\r\n" in s:
            key += ":line-continuation"
        elif b'"' in s:
            key += ":quotes"
        o.violate(key, {"text": s, "got": got, "expected": exp})
    if got2 != got or (label == "unescape.shell.carets") != (got != s):
        o.violate("deobfuscate_cmd:label", {"text": s, "label": label})
    o.nontrivial = any(ch in s for ch in b'^"\r()')
    if b"^\r\n" in s:
        o.label("line-continuation")
    if b'"' in s and b"^" in s:
        o.label("caret+quote")
    return o


# -------------------------------------------------------------------------------------------------
# cmd commands
# -------------------------------------------------------------------------------------------------
CMD_TOKENS = [b"cmd", b"CMD", b"cmd.exe", b"c^md", b"c^m^d", b'"cmd"', b'"cmd.exe"', b'"C:\\WINDOWS\\system32\\cmd.exe"', b"C:\\Windows\\System32\\cmd", b"Cmd.Exe", b"cm^d"]
CMD_REST = [b"a", b" ", b"  ", b"^", b'"', b"(", b")", b"/c", b"e^cho", b"\r\n", b"'", b"^\r\n", b"&", b"\t", b"x(y)", b'"a b"', b"^)", b"^(", b'"']


def cmd_cases():
    return st.fixed_dictionaries(
        {
            "token": st.sampled_from(CMD_TOKENS),
            "rest": st.lists(st.sampled_from(CMD_REST), max_size=12).map(b"".join),
            "pre": st.sampled_from([b"", b"x ", b"(", b"((", b"foo;", b"( ", b"lorem ipsum (", b"\x00"]),
            "suf": st.sampled_from([b"", b"\x00tail", b"\x00", b"\x00 quux )"]),
        }
    )


def ref_cmd(body: bytes):
    """(relative end, raw span text) by the statement's span rule; body contains no NUL"""
    bal = 0
    for j, c in enumerate(body):
        if c == 0x29:
            bal -= 1
        elif c == 0x28:
            bal += 1
        if bal < 0:
            return j, body[:j]
    return len(body), body


def check_cmd(case) -> Outcome:
    from multidecoder.decoders.shell import find_cmd_strings

    o = Outcome()
    tok, rest, pre, suf = case["token"], case["rest"], case["pre"], case["suf"]
    if rest[:1].isalnum() or rest[:1] == b"_":
        # the command token must end at a word boundary
        rest = b" " + rest
    body = tok + rest
    text = pre + body + suf
    a = len(pre)
    endrel, raw = ref_cmd(body)
    de = ref_strip(raw)
    try:
        hits = find_cmd_strings(text)
    except Exception as e:
        return o.violate("cmd:raises:" + type(e).__name__, {"text": text})
    if de is None:
        return o.exclude("caret before a bare CR (outside the statement)")
    if endrel < len(tok):
        return o.exclude("unbalanced ')' inside the command token")
    mine = [h for h in hits if h.start == a]
    if len(mine) != 1 or len(hits) != 1:
        return o.violate("cmd:not-found-or-duplicated", {"text": text, "hits": [(h.start, h.end, h.value) for h in hits]})
    h = mine[0]
    if (h.start, h.end) != (a, a + endrel):
        o.violate("cmd:span" + (":after-unbalanced-paren" if endrel < len(body) else ":no-paren"), {"text": text, "got": [h.start, h.end], "expected": [a, a + endrel]})
        return o
    first = de.split()[0] if de.split() else b""
    stray = (not first.startswith(b'"') and first.endswith(b'"')) or (not first.startswith(b"'") and first.endswith(b"'"))
    if stray:
        expv = [first[:-1]] + de.split()[1:]
        if h.value.split() != [x for x in expv if x] and h.value.split() != expv:
            o.violate("cmd:value:stray-quote", {"text": text, "got": h.value, "expected_tokens": expv})
        o.label("stray-quote-repair")
    elif h.value != de:
        o.violate("cmd:value", {"text": text, "got": h.value, "expected": de})
    if h.type != "shell.cmd":
        o.violate("cmd:type", {"got": h.type})
    if (h.obfuscation == "unescape.shell.carets") != (de != raw):
        o.violate("cmd:label", {"text": text, "label": h.obfuscation, "changed": de != raw})
    o.nontrivial = any(ch in body for ch in b'^"\r()')
    if endrel < len(body):
        o.label("cut-at-unbalanced-paren")
    if b"(" in raw:
        o.label("balanced-parens-inside")
    if de != raw:
        o.label("carets-removed")
    return o


# -------------------------------------------------------------------------------------------------
# PowerShell, encoded command
# -------------------------------------------------------------------------------------------------
PS_TOKENS = [b"powershell", b"PowerShell", b"powershell.exe", b"pwsh", b"pwsh.exe", b"POWERSHELL.EXE"]
SWITCHES = [b"nop", b"noni", b"NoProfile", b"sta", b"noexit", b"NonInteractive", b"nologo"]
ENC_FULL = b"encodedcommand"
SCRIPT_ALPHA = "abc xyz;$()=-'|.,0123456789[]{}/\\\"&"


@st.composite
def ps_enc_cases(draw):
    tok = draw(st.sampled_from(PS_TOKENS))
    style = draw(st.sampled_from([b"-", b"/"]))
    sws = draw(st.lists(st.sampled_from(SWITCHES), max_size=3))
    plen = draw(st.integers(1, len(ENC_FULL)))
    enc_name = ENC_FULL[:plen]
    if plen == 2:
        enc_name = draw(st.sampled_from([b"en", b"ec"]))
    casing = draw(st.integers(0, 2))
    enc_name = [enc_name, enc_name.upper(), enc_name.title()][casing]
    script = "".join(draw(st.lists(st.sampled_from(list(SCRIPT_ALPHA)), min_size=2, max_size=14)))
    if draw(st.booleans()):
        script = "echo " + script
    q = draw(st.sampled_from([b"", b'"', b"'"]))
    caret_flags = draw(st.lists(st.integers(0, 5), min_size=1, max_size=8))
    use_caret = draw(st.integers(0, 2)) == 0
    ctx = draw(st.sampled_from(["start", "cmd", "assign", "paren", "semicolon"]))
    seps = [b" ", b"  ", b"\t"] + ([b"", b""] if style == b"/" else [])  # a / switch may be glued to the previous token
    return {"token": tok, "style": style, "switches": sws, "enc": enc_name, "script": script, "quote": q, "carets": caret_flags if use_caret else None, "ctx": ctx, "sep": draw(st.sampled_from(seps))}


def _caret(s: bytes, flags):
    out = b""
    n = 0
    for i, ch in enumerate(s):
        if flags[i % len(flags)] == 0 and ch not in b'\r\n"' and (ch in b"abcdefghijklmnopqrstuvwxyzABCDEFGHIJKLMNOPQRSTUVWXYZ"):
            out += b"^"
            n += 1
        out += bytes([ch])
    return out, n


def build_ps_enc(c):
    tok, style = c["token"], c["style"]
    script = c["script"]
    b64 = base64.b64encode(script.encode("utf-16-le"))
    q = c["quote"]
    inv = tok + b"".join(c["sep"] + style + s for s in c["switches"]) + c["sep"] + style + c["enc"]
    plain = inv + b" " + q + b64 + q
    raw, ncaret = (plain, 0)
    if c["carets"] is not None:
        # carets only in the invocation part: a caret inside the base64 text is rejected by the decoder by design
        inv_c, ncaret = _caret(inv, c["carets"])
        raw = inv_c + b" " + q + b64 + q
    pre, suf = {"start": (b"", b" ; more text"), "cmd": (b"cmd /c ", b""), "assign": (b"x = ", b" tail"), "paren": (b"run(", b")"), "semicolon": (b"a; ", b"")}[c["ctx"]]
    return pre, raw, suf, plain, ncaret


def norm_switch_style(v: bytes) -> bytes:
    return re.sub(rb"\s+/", b" -", re.sub(rb"\s+", b" ", v))


def check_ps_enc(case) -> Outcome:
    from multidecoder.decoders.shell import find_powershell_strings

    o = Outcome()
    pre, raw, suf, plain, ncaret = build_ps_enc(case)
    if case["quote"] and suf[:1].isalnum():
        return o.exclude("no delimiter after the quote")
    text = pre + raw + suf
    a, b = len(pre), len(pre) + len(raw)
    try:
        hits = find_powershell_strings(text)
    except Exception as e:
        return o.violate("ps:raises:" + type(e).__name__, {"text": text})
    script = case["script"].encode()
    # value-less switches: accepted in either style; the encoded-command switch and its argument become -Command <script>
    expv = norm_switch_style(b" ".join([case["token"]] + [case["style"] + s for s in case["switches"]]) + b" -Command ") + script
    # note: the script itself is not whitespace-normalised (only the invocation part is compared modulo style/whitespace)

    def value_ok(v: bytes) -> bool:
        if not v.endswith(b" -Command " + script):
            return False
        return norm_switch_style(v[: -len(script)]) == norm_switch_style(expv[: -len(script)])

    if ncaret:
        cand = [h for h in hits if h.type == "shell.cmd" and (h.start, h.end) == (a, b)]
        if not cand:
            return o.violate("ps:enc:caret:missing-or-wrong-span", {"text": text, "hits": [(h.type, h.start, h.end, h.value) for h in hits], "expected_span": [a, b]})
        h = cand[0]
        if h.value != plain or h.obfuscation != "unescape.shell.carets":
            o.violate("ps:enc:caret:cmd-value", {"text": text, "got": h.value, "expected": plain, "label": h.obfuscation})
        ch = [c for c in h.children if c.type == "shell.powershell" and c.obfuscation == "powershell.base64"]
        if len(ch) != 1 or not value_ok(ch[0].value):
            o.violate("ps:enc:caret:child-value", {"text": text, "children": [(c.type, c.obfuscation, c.value) for c in h.children], "expected": expv})
        o.label("enc:caret-obfuscated")
    else:
        cand = [h for h in hits if h.type == "shell.powershell" and (h.start, h.end) == (a, b)]
        if not cand:
            return o.violate("ps:enc:missing-or-wrong-span", {"text": text, "hits": [(h.type, h.start, h.end, h.value) for h in hits], "expected_span": [a, b]})
        h = cand[0]
        if h.obfuscation != "powershell.base64":
            o.violate("ps:enc:label", {"text": text, "label": h.obfuscation})
        if not value_ok(h.value):
            o.violate("ps:enc:value", {"text": text, "got": h.value, "expected": expv})
        o.label("enc:plain")
    o.nontrivial = True
    o.label("enc-prefix-len=%d" % len(case["enc"]))
    o.label("style:" + case["style"].decode())
    return o


# -------------------------------------------------------------------------------------------------
# PowerShell without encoded argument
# -------------------------------------------------------------------------------------------------
def ps_plain_cases():
    body_tail = st.lists(st.sampled_from(list(b"abc xyz;$=|-.,0123456789")), min_size=1, max_size=12).map(bytes)
    return st.fixed_dictionaries(
        {
            "token": st.sampled_from(PS_TOKENS),
            "args": st.sampled_from([b" -Command ", b" ", b" -nop -c ", b" -File "]),
            "tail": body_tail,
            "kind": st.sampled_from(["dquote", "squote", "forloop", "start", "unterminated-d", "unterminated-s", "unterminated-for", "bare-offset"]),
            "suffix": st.sampled_from([b" rest", b"", b"\nmore", b", 0)", b")", b") do x", b"; y = 'z'", b' & "w"']),
            # what stands before the opening quote (never ends in an opening parenthesis for a single quote: that is the
            # FOR-loop clause; earlier complete strings are allowed, the nearest quote is still the opening one)
            "lead": st.sampled_from([None, None, b"Shell(", b"(", b"x=", b'say "hi"; run ', b"a('b') + ", b"", b"WScript.Run ( "]),
        }
    )


def check_ps_plain(case) -> Outcome:
    from multidecoder.decoders.shell import find_powershell_strings

    o = Outcome()
    body = case["token"] + case["args"] + case["tail"]
    k = case["kind"]
    suffix = case["suffix"]
    lead = case.get("lead")
    if k == "dquote":
        pre = (b"run " if lead is None else lead) + b'"'
        text = pre + body + b'"' + suffix
        a, b = len(pre), len(pre) + len(body)
        exp_body = body
    elif k == "squote":
        if lead is not None and lead.rstrip(b" ").endswith(b"("):
            lead = lead + b"x, "  # ('...') would be the FOR-loop clause
        pre = (b"iex " if lead is None else lead) + b"'"
        text = pre + body + b"'" + suffix
        a, b = len(pre), len(pre) + len(body)
        exp_body = body
    elif k == "forloop":
        pre = b"for /f %a in ('"
        text = pre + body + b"') do x" + suffix
        a, b = len(pre), len(pre) + len(body)
        exp_body = body
    elif k == "start":
        text = body + b" to the end" + suffix
        a, b = 0, len(text)
        exp_body = text
    elif k in ("unterminated-d", "unterminated-s", "unterminated-for"):
        pre = {"unterminated-d": b'run "', "unterminated-s": b"iex '", "unterminated-for": b"for /f %a in ('"}[k]
        tail_text = body + b" to the end" + suffix.replace(b"'", b"").replace(b'"', b"")
        text = pre + tail_text
        a, b = len(pre), len(text)
        exp_body = tail_text
    else:  # bare-offset: K1
        pre = b"x = "
        text = pre + body + b" to the end" + suffix
        a, b = len(pre), len(text)
        exp_body = text[a:]
    if b"'" in exp_body or b'"' in exp_body:
        return o.exclude("quote inside the generated body")
    try:
        hits = find_powershell_strings(text)
    except Exception as e:
        return o.violate("ps:raises:" + type(e).__name__, {"text": text})
    ps = [h for h in hits if h.type == "shell.powershell" and h.start == a]
    if not ps:
        return o.violate("ps:plain:not-found:" + k, {"text": text, "hits": [(h.type, h.start, h.end, h.value) for h in hits]})
    h = ps[0]
    if (h.start, h.end) != (a, b):
        if k == "bare-offset" and h.end == len(text) - h.start:
            o.violate("ps:span:no-context:end=len(text)-start", {"text": text, "got": [h.start, h.end], "expected": [a, b]})
        else:
            o.violate("ps:plain:span:" + k, {"text": text, "got": [h.start, h.end], "expected": [a, b]})
    if h.value != exp_body or h.obfuscation != "":
        o.violate("ps:plain:value:" + k, {"text": text, "got": h.value, "expected": exp_body, "label": h.obfuscation})
    o.nontrivial = True
    o.label("plain:" + k)
    return o


# -------------------------------------------------------------------------------------------------
# through a full scan
# -------------------------------------------------------------------------------------------------
_md = None


def scan_cases():
    return st.one_of(cmd_cases().map(lambda c: {"kind": "cmd", "case": c}), ps_enc_cases().map(lambda c: {"kind": "ps", "case": c}))


def check_scan(case) -> Outcome:
    global _md
    if _md is None:
        from multidecoder.multidecoder import Multidecoder

        _md = Multidecoder()
    o = Outcome()
    c = case["case"]
    if case["kind"] == "cmd":
        tok, rest = c["token"], c["rest"]
        if rest[:1].isalnum() or rest[:1] == b"_":
            rest = b" " + rest
        body = tok + rest
        text = c["pre"] + body + c["suf"]
        a = len(c["pre"])
        endrel, raw = ref_cmd(body)
        de = ref_strip(raw)
        if de is None or endrel < len(tok):
            return o.exclude("outside the statement")
        want = ("shell.cmd", a, a + endrel)
    else:
        pre, raw, suf, plain, ncaret = build_ps_enc(c)
        if c["quote"] and suf[:1].isalnum():
            return o.exclude("no delimiter after the quote")
        text = pre + raw + suf
        want = ("shell.cmd" if ncaret else "shell.powershell", len(pre), len(pre) + len(raw))
    try:
        root = guarded(5.0, _md.scan, text)
    except CaseTimeout:
        return o.exclude("slow-scan")
    except Exception as e:
        return o.exclude("scan-raised:" + type(e).__name__ + " (C01's business)")
    nodes = abs_nodes(root)
    if not any(n.type == want[0] and (s, e) == (want[1], want[2]) for s, e, n in nodes):
        covering = [(n.type, s, e) for s, e, n in nodes if s <= want[1] and e >= want[2] and n.value.lower() != n.original.lower()]
        if covering:
            return o.exclude("shadowed by an enclosing decoded result")
        o.violate("scan:%s-node-missing" % want[0], {"text": text, "want": want, "nodes": [(n.type, s, e) for s, e, n in nodes][:8]})
    o.nontrivial = True
    o.label("scan:" + case["kind"])
    return o


def units(tier):
    q = tier == "quick"
    return [
        Unit("carets", "hyp", check=check_carets, strategy=caret_cases, budget=80000 if q else 1500000),
        Unit("cmd", "hyp", check=check_cmd, strategy=cmd_cases, budget=60000 if q else 1000000),
        Unit("ps_enc", "hyp", check=check_ps_enc, strategy=lambda: S.cached("c16.ps_enc", ps_enc_cases), budget=40000 if q else 800000),
        Unit("ps_plain", "hyp", check=check_ps_plain, strategy=ps_plain_cases, budget=20000 if q else 300000),
        Unit("scan", "hyp", check=check_scan, strategy=lambda: S.cached("c16.scan", scan_cases), budget=6000 if q else 100000),
    ]
