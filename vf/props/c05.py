"""C05 - Sibling results are laminar; raw hits inside a decoded region are suppressed."""
from __future__ import annotations

from ..invariants import c05
from ..unit import Outcome, Unit
from . import _engine_common as E

ID = "C05"
RULE = (
    "case = (document, depth) with the shipped registry (token soups and the directed family 'contexts > decoded region > raw "
    "indicator inside the encoded text', nested 0-3 contexts deep at non-zero offsets) or (text, synthetic table registry, "
    "depth). For every child list, restricted to engine-attached children: starts non-decreasing, ends strictly increasing, "
    "no sibling inside another (both directions); every recorded hit is attached, nested under a containing undecoded "
    "sibling, suppressed inside a decoded sibling or dropped as a self-match. Non-trivial = a child list with >= 2 "
    "engine-attached siblings and at least one recorded hit that was nested or suppressed; class: inside a context at offset > 0."
)
ASSUMPTIONS = [
    "decoder-supplied children are exempt: the statement is about children the scan attaches",
    "pairs involving a hit that is not a valid interval (known finding K1) are skipped and counted",
]


def _check(an, o):
    if an is None:
        return o
    v, stats = c05(an)
    for key, detail in v:
        o.violate(key, detail)
    o.nontrivial = stats["lists>=2"] > 0 and stats["nested_or_suppressed"] > 0
    if stats["in_context_offset>0"]:
        o.label("siblings-inside-context-offset>0")
    if stats["suppressed"]:
        o.label("suppressed-inside-decoded")
    if stats["selfmatch"]:
        o.label("self-match-dropped")
    if stats["tainted_pairs_skipped"]:
        o.exclude("pair-with-invalid-interval(K1)")
    return o


def check_doc(case) -> Outcome:
    o = Outcome()
    return _check(E.analyse_doc(case, o), o)


def check_table(case) -> Outcome:
    o = Outcome()
    return _check(E.analyse_table(case, o), o)


def units(tier):
    q = tier == "quick"
    return [
        Unit("docs", "hyp", check=check_doc, strategy=E.doc_cases, budget=20000 if q else 400000),
        Unit("nested", "hyp", check=check_doc, strategy=E.nested_cases, budget=12000 if q else 200000),
        Unit("tables", "hyp", check=check_table, strategy=E.table_cases, budget=30000 if q else 400000),
    ]
