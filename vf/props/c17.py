"""C17 - Keyword search reports exactly the delimited, case-insensitive occurrences.

Oracle: an independent reference written from the statement (left-to-right literal ASCII-case-insensitive
search advancing by the keyword length after every occurrence; boundary test on ASCII letters/digits;
MixedCase truth table). Domain: exhaustive over a small alphabet and length bound, sampled beyond, through
find_keywords directly and through a registry built from a generated keyword directory.
"""
from __future__ import annotations

import itertools
import os
import shutil
import tempfile

from hypothesis import strategies as st

from .. import VERIF_DIR
from ..unit import Outcome, Unit

ID = "C17"
RULE = (
    "case = (keyword list, data[, directory layout]); enumerated exhaustively over alphabet {a,A,b,1,-,space} "
    "(data length <= bound, keywords of length 1-3) and sampled with Hypothesis beyond (data <= 48 bytes over a 24-symbol "
    "alphabet incl. bytes >= 0x80, 1-6 keywords incl. prefixes of one another / punctuation / digits). "
    "Non-trivial = the reference finds at least one literal (case-insensitive) occurrence of some keyword in the data, "
    "whether or not it survives the boundary test; distinct by (keywords, data)."
)
ASSUMPTIONS = [
    "letter case is ASCII letter case (the statement says 'ASCII letters or digits' for boundaries; bytes >= 0x80 are caseless)",
    "keyword lists contain no duplicates (the registry holds them in a set)",
]
EXHAUSTIVE = {"quick": True, "thorough": True}
EXHAUSTIVE_SCOPE = {
    "quick": "all data of length 0..5 over {a,A,b,1,-,' '} x all keywords of length 1..3 over the same alphabet (unit enum)",
    "thorough": "all data of length 0..7 over {a,A,b,1,-,' '} x all keywords of length 1..3 over the same alphabet (unit enum)",
}

ALPHA = b"aAb1- "


def _low(b: bytes) -> bytes:
    return bytes(c + 32 if 65 <= c <= 90 else c for c in b)


def _alnum(c: int) -> bool:
    return 48 <= c <= 57 or 65 <= c <= 90 or 97 <= c <= 122


def ref_keyword(label: str, kw: bytes, data: bytes):
    """Reference for one keyword: list of (type, value, obfuscation, start, end) and number of literal occurrences."""
    out = []
    occ = 0
    n = len(kw)
    if n == 0:
        return out, 0
    lk, ld = _low(kw), _low(data)
    i = 0
    L = len(data)
    while i + n <= L:
        if ld[i : i + n] == lk:
            occ += 1
            ok_l = i == 0 or not _alnum(data[i - 1])
            ok_r = i + n == L or not _alnum(data[i + n])
            if ok_l and ok_r:
                raw = data[i : i + n]
                letters = [c for c in raw if 65 <= c <= 90 or 97 <= c <= 122]
                allup = bool(letters) and all(c <= 90 for c in letters)
                alllow = bool(letters) and all(c >= 97 for c in letters)
                differs = any((65 <= a <= 90) != (65 <= b <= 90) for a, b in zip(raw, kw) if (65 <= a <= 90 or 97 <= a <= 122))
                out.append((label, kw, "MixedCase" if (not allup and not alllow and differs) else "", i, i + n))
            i += n
        else:
            i += 1
    return out, occ


def classify(got, exp):
    """Root-cause key for a disagreement between implementation hits and reference hits (both lists of 5-tuples)."""
    gs = sorted((g[3], g[4]) for g in got)
    es = sorted((e[3], e[4]) for e in exp)
    if gs != es:
        if set(es) < set(gs):
            return "kw:extra-hit"
        if set(gs) < set(es):
            return "kw:missing-hit"
        return "kw:span"
    if sorted((g[3], g[2]) for g in got) != sorted((e[3], e[2]) for e in exp):
        return "kw:mixedcase-label"
    return "kw:type-or-value"


def check_direct(case) -> Outcome:
    from multidecoder.keyword import find_keywords

    o = Outcome()
    label, kws, data = case["label"], case["keywords"], case["data"]
    got_all = [(n.type, n.value, n.obfuscation, n.start, n.end) for n in find_keywords(label, list(kws), data)]
    total_occ = 0
    for kw in kws:
        exp, occ = ref_keyword(label, kw, data)
        total_occ += occ
        got = [g for g in got_all if g[1] == kw]
        if sorted(got) != sorted(exp):
            o.violate(classify(got, exp), {"keyword": kw, "data": data, "got": got, "expected": exp})
        if exp:
            o.label("hit")
            if any(e[2] for e in exp):
                o.label("mixedcase")
        elif occ:
            o.label("boundary-rejected")
    extra = [g for g in got_all if g[1] not in kws]
    if extra:
        o.violate("kw:unlisted-value", {"extra": extra})
    o.nontrivial = total_occ > 0
    if any(a != b and (a.startswith(b) or b.startswith(a)) for a in kws for b in kws):
        o.label("prefix-keywords")
    if any(c >= 0x80 for c in data):
        o.label("high-bytes")
    return o


# ---- exhaustive enumeration ---------------------------------------------------------------------
def run_enum(ctx, shard, nshards, seed, budget):
    from multidecoder.keyword import find_keywords

    maxlen = budget  # budget carries the data-length bound
    kws = [bytes(k) for n in (1, 2, 3) for k in itertools.product(ALPHA, repeat=n)]
    idx = 0
    evals = nt = hits = mixed = rejected = 0
    for dl in range(0, maxlen + 1):
        for d in itertools.product(ALPHA, repeat=dl):
            idx += 1
            if idx % nshards != shard:
                continue
            data = bytes(d)
            for kw in kws:
                got = [(n.type, n.value, n.obfuscation, n.start, n.end) for n in find_keywords("L", [kw], data)]
                exp, occ = ref_keyword("L", kw, data)
                evals += 1
                if occ:
                    nt += 1
                    if exp:
                        hits += 1
                        if exp[0][2] or exp[-1][2]:
                            mixed += 1
                    else:
                        rejected += 1
                if got != exp:
                    o = Outcome()
                    o.nontrivial = True
                    o.violate(classify(got, exp), {"keyword": kw, "data": data, "got": got, "expected": exp})
                    ctx.record({"label": "L", "keywords": [kw], "data": data}, o)
                    evals -= 1
                    nt -= 1 if occ else 0
            if idx % 1201 == shard and dl >= 3:
                for kw in kws[idx % 7 :: 7]:
                    if ref_keyword("L", kw, data)[1]:
                        ctx.sample({"label": "L", "keywords": [kw], "data": data})
                        break
    ctx.bulk(evals, nt, {"enum.hit": hits, "enum.mixedcase": mixed, "enum.boundary-rejected": rejected})


# ---- sampled beyond the bound -------------------------------------------------------------------
SYMS = [b"a", b"A", b"b", b"B", b"z", b"Z", b"0", b"9", b"-", b"_", b" ", b".", b"(", b"\n", b"\x00", b"\xe9", b"\xc9", b"\xff", b"%", b"+", b"x", b"X", b"1", b"/"]


@st.composite
def direct_cases(draw):
    sym = st.sampled_from(SYMS)
    nkw = draw(st.integers(1, 6))
    kws = []
    base = b"".join(draw(st.lists(sym, min_size=1, max_size=5)))
    kws.append(base)
    for _ in range(nkw - 1):
        mode = draw(st.integers(0, 4))
        if mode == 0:
            k = base + b"".join(draw(st.lists(sym, min_size=1, max_size=3)))  # extension (base is a prefix)
        elif mode == 1 and len(base) > 1:
            k = base[: draw(st.integers(1, len(base) - 1))]  # prefix of base
        elif mode == 2:
            k = base.swapcase()
        else:
            k = b"".join(draw(st.lists(sym, min_size=1, max_size=5)))
        kws.append(k)
    uniq = []
    for k in kws:
        if k and k not in uniq:
            uniq.append(k)
    # data: mixture of keyword occurrences (random case) and filler symbols, so occurrences are frequent
    parts = draw(
        st.lists(
            st.one_of(
                sym,
                st.sampled_from(uniq).flatmap(
                    lambda k: st.lists(st.booleans(), min_size=len(k), max_size=len(k)).map(
                        lambda flips, k=k: bytes((c ^ 0x20) if f and (65 <= c <= 90 or 97 <= c <= 122) else c for c, f in zip(k, flips))
                    )
                ),
            ),
            max_size=10,
        )
    )
    data = b"".join(parts)[:48]
    label = draw(st.sampled_from(["api", "L", "net.list", "étiquette"]))
    return {"label": label, "keywords": uniq, "data": data}


# ---- through a registry built from a generated keyword directory ----------------------------------
@st.composite
def registry_cases(draw):
    c = draw(direct_cases())
    nfiles = draw(st.integers(1, 3))
    files = []
    kws = c["keywords"]
    kws = [k for k in kws if b"\n" not in k and b"\r" not in k and not any(ch in k for ch in (b"\x0b", b"\x0c", b"\x1c", b"\x1d", b"\x1e", b"\x85"))]
    if not kws:
        kws = [b"a"]
    for i in range(nfiles):
        mine = kws[i::nfiles] or [kws[0]]
        eol = draw(st.sampled_from([b"\n", b"\r\n"]))
        blank = draw(st.booleans())
        trailing = draw(st.booleans())
        sub = draw(st.sampled_from(["", "sub", "sub/deeper"]))
        files.append({"name": "list%d.%s" % (i, draw(st.sampled_from(["name", "api", "x"]))), "sub": sub, "keywords": mine, "eol": eol, "blank": blank, "trailing": trailing})
    return {"files": files, "data": c["data"]}


def _scratch():
    for base in ("/dev/shm", os.path.join(VERIF_DIR, ".scratch")):
        if os.path.isdir(base) and os.access(base, os.W_OK):
            return base
    os.makedirs(os.path.join(VERIF_DIR, ".scratch"), exist_ok=True)
    return os.path.join(VERIF_DIR, ".scratch")


def check_registry(case) -> Outcome:
    from multidecoder.registry import build_registry

    o = Outcome()
    d = tempfile.mkdtemp(prefix="vf-c17-", dir=_scratch())
    try:
        for f in case["files"]:
            sub = os.path.join(d, f["sub"]) if f["sub"] else d
            os.makedirs(sub, exist_ok=True)
            body = b""
            for k in f["keywords"]:
                body += k + f["eol"]
                if f["blank"]:
                    body += f["eol"]
            if not f["trailing"] and body.endswith(f["eol"]):
                body = body[: -len(f["eol"])]
            with open(os.path.join(sub, f["name"]), "wb") as fh:
                fh.write(body)
        reg = build_registry(d, include=["__no_such_decoder_module__"])
        data = case["data"]
        got_all = []
        for search in reg:
            got_all.extend((n.type, n.value, n.obfuscation, n.start, n.end) for n in search(data))
        exp_all = []
        occ_total = 0
        for f in case["files"]:
            for kw in dict.fromkeys(f["keywords"]):
                exp, occ = ref_keyword(f["name"], kw, data)
                occ_total += occ
                exp_all.extend(exp)
        if sorted(got_all) != sorted(exp_all):
            o.violate("kwreg:" + classify(got_all, exp_all), {"files": case["files"], "data": data, "got": sorted(got_all), "expected": sorted(exp_all)})
        o.nontrivial = occ_total > 0
        if exp_all:
            o.label("registry.hit")
        if any(f["sub"] for f in case["files"]):
            o.label("registry.subdir")
    finally:
        shutil.rmtree(d, ignore_errors=True)
    return o


def units(tier):
    q = tier == "quick"
    return [
        Unit("enum", "custom", run=run_enum, check=check_direct, budget=5 if q else 7, exhaustive=True, scalable=False),
        Unit("direct", "hyp", check=check_direct, strategy=direct_cases, budget=24000 if q else 400000),
        Unit("registry", "hyp", check=check_registry, strategy=registry_cases, budget=4000 if q else 60000),
    ]
