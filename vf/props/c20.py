"""C20 - JSON serialisation is lossless and the CLI reports exactly the library's tree."""
from __future__ import annotations

import io
import json
import os
import shutil
import subprocess
import sys
import tempfile

from hypothesis import strategies as st

from .. import REPO_SRC, VERIF_DIR, die_with_parent, ensure_version_stub
from .. import strategies as S
from ..observe import CaseTimeout, freeze, guarded, walk_iter
from ..unit import Outcome, Unit
from .c19 import ref_flatten

ID = "C20"
RULE = (
    "cases: generated trees (values over all 256 byte values, non-ASCII type / obfuscation strings, chains up to depth 60, "
    "arbitrary integer spans) round-tripped through tree_to_json / json_to_tree and compared field for field with the parsed "
    "JSON; single-field perturbations of one drawn descendant (type, value, obfuscation, start, end, child added / removed) "
    "must compare unequal and serialise differently; generated documents x CLI modes {file, stdin} x {default, --json, "
    "--replace, --keywords DIR} run through the command line's main() in-process and (sample) as real `python -m multidecoder` "
    "subprocesses, compared with the library's tree for the same bytes and an independent rendering of the summary lines. "
    "Non-trivial = tree with at least 3 nodes (JSON) / scan with at least one node (CLI); distinct by case hash."
)
ASSUMPTIONS = [
    "the summary-line format is 'label<space>escaped value' where the label joins, root to node, each node's type and '>'+obfuscation with '/' (either order within one node is accepted) and the value is escaped like a Python bytes literal",
    "trees deeper than the interpreter's recursion limit are a known finding of C01 (K5) and are not generated here",
]

# -------------------------------------------------------------------------------------------------
# generated trees
# -------------------------------------------------------------------------------------------------
LABELS = ["", "string", "network.url", "x", "étiquette", "类型", ">", "a/b", "powershell.bytes", "\u0000", "퟿"]


def tree_from_tape(tape):
    i = [0]

    def nxt(n):
        v = tape[i[0]] if i[0] < len(tape) else 0
        i[0] += 1
        return v % n if n > 0 else 0

    def node(depth):
        value = bytes(nxt(256) for _ in range(nxt(6)))
        typ = LABELS[nxt(len(LABELS))]
        obf = LABELS[nxt(len(LABELS))]
        start = nxt(40) - 3
        end = nxt(40) - 3
        kids = []
        if depth > 0:
            n = nxt(4)
            for _ in range(n):
                kids.append(node(depth - 1))
        return [typ, value, obf, start, end, kids]

    t = node(4)
    # optional deep chain hanging off the first leaf
    chain = nxt(61)
    cur = t
    for d in range(chain):
        k = [LABELS[(d + 1) % len(LABELS)], bytes([d % 256]), "", d, d + 1, []]
        cur[5].append(k)
        cur = k
    return t


def json_cases():
    return st.tuples(st.lists(st.integers(0, 255), min_size=20, max_size=200), st.sampled_from(["ok", "ok", "none", "stale"])).map(lambda t: {"tree": tree_from_tape(t[0]), "links": t[1]})


def build(t, parent=None, links="ok"):
    """links: "ok" = consistent parent pointers; "none" = children attached after construction, no parent pointers;
    "stale" = every node points at some unrelated node. A tree is its children lists (equality ignores parent pointers),
    so the JSON encoding must be the same for all three."""
    from multidecoder.node import Node

    if links == "ok":
        up = parent
    elif links == "none":
        up = None
    else:
        up = Node("stale", b"elsewhere", "", 0, 9)
    n = Node(t[0], t[1], t[2], t[3], t[4], up)
    n.children = [build(c, n, links) for c in t[5]]
    return n


def count(t):
    return 1 + sum(count(c) for c in t[5])


def compare_json(d, t, path, o):
    if not isinstance(d, dict) or set(d) != {"type", "value", "obfuscation", "start", "end", "children"}:
        o.violate("json:keys", {"path": path, "got": sorted(d) if isinstance(d, dict) else str(type(d))})
        return
    exp = {"type": t[0], "value": t[1].hex(), "obfuscation": t[2], "start": t[3], "end": t[4]}
    for k, v in exp.items():
        if d[k] != v or type(d[k]) is not type(v):
            o.violate("json:field:" + k, {"path": path, "got": d[k], "expected": v})
    if not isinstance(d["children"], list) or len(d["children"]) != len(t[5]):
        o.violate("json:children", {"path": path})
        return
    for i, (dc, tc) in enumerate(zip(d["children"], t[5])):
        compare_json(dc, tc, path + [i], o)


def check_json(case) -> Outcome:
    from multidecoder.json_conversion import json_to_tree, tree_to_json

    o = Outcome()
    t = case["tree"]
    links = case.get("links", "ok")
    node = build(t, None, links)
    o.label("links:" + links)
    try:
        s = tree_to_json(node)
    except Exception as e:
        return o.violate("json:encode-raises:" + type(e).__name__, {"error": repr(e)[:200]})
    try:
        d = json.loads(s)
    except Exception as e:
        return o.violate("json:invalid-json", {"error": repr(e)[:200]})
    compare_json(d, t, [], o)
    try:
        back = json_to_tree(s)
    except Exception as e:
        return o.violate("json:decode-raises:" + type(e).__name__, {"error": repr(e)[:200]})
    if not (back == node):
        o.violate("json:roundtrip-not-equal", {"tree": t})
    if freeze(back) != freeze(node):
        o.violate("json:roundtrip-differs-structurally", {"tree": t})
    if back.parent is not None:
        o.violate("json:root-has-parent", {})
    for n, p, _ in walk_iter(back):
        if n.parent is not p:
            o.violate("json:parent-link", {"type": n.type})
            break
    # keyword arguments are passed through
    try:
        if json_to_tree(tree_to_json(node, indent=1, sort_keys=True)) != node:
            o.violate("json:roundtrip-with-kwargs", {})
    except Exception as e:
        o.violate("json:kwargs-raise:" + type(e).__name__, {"error": repr(e)[:200]})
    # the default CLI output prints query.string_summary(tree) line by line: one line per node, in pre-order, made of the
    # whole ancestor type / obfuscation chain and the escaped value - checked here on trees far deeper than scans produce
    try:
        from multidecoder.query import string_summary

        if links != "ok":
            node = build(t)  # the summary reads the ancestor chain through the parent pointers a scan sets
        lines = string_summary(node)
        exp_a, exp_b = summary_lines(node, True), summary_lines(node, False)
        if lines != exp_a and lines != exp_b:
            if len(lines) != len(exp_a):
                o.violate("summary:line-count", {"got": len(lines), "nodes": len(exp_a)})
            else:
                i = [j for j, (g, e) in enumerate(zip(lines, exp_a)) if g != e][0]
                depth = exp_a[i].count("/")
                o.violate("summary:line-content" + (":deep-node" if depth >= 10 else ""), {"got": lines[i][:300], "expected": exp_a[i][:300]})
    except RecursionError:
        o.exclude("deep-nesting(K5)")
    o.nontrivial = count(t) >= 3
    if any(ord(ch) > 127 for ch in t[0] + t[2]):
        o.label("non-ascii-label")
    return o


# ---- perturbations -----------------------------------------------------------------------------------
def perturb_cases():
    return st.fixed_dictionaries(
        {
            "tree": st.lists(st.integers(0, 255), min_size=20, max_size=160).map(tree_from_tape),
            "which": st.integers(0, 10**6),
            "field": st.sampled_from(["type", "value", "obfuscation", "start", "end", "add-child", "remove-child", "value-case", "type-case"]),
        }
    )


def _paths(t, path=()):
    yield path
    for i, c in enumerate(t[5]):
        yield from _paths(c, path + (i,))


def _get(t, path):
    for i in path:
        t = t[5][i]
    return t


def check_perturb(case) -> Outcome:
    import copy

    from multidecoder.json_conversion import tree_to_json

    o = Outcome()
    t = case["tree"]
    t2 = copy.deepcopy(t)
    paths = list(_paths(t2))
    path = paths[case["which"] % len(paths)]
    n = _get(t2, path)
    f = case["field"]
    if f == "type":
        n[0] = n[0] + "x"
    elif f == "type-case":
        if n[0].swapcase() == n[0]:
            return o.exclude("type has no letters")
        n[0] = n[0].swapcase()
    elif f == "value":
        n[1] = n[1] + b"\x00"
    elif f == "value-case":
        if n[1].swapcase() == n[1]:
            return o.exclude("value has no letters")
        n[1] = n[1].swapcase()
    elif f == "obfuscation":
        n[2] = n[2] + "x"
    elif f == "start":
        n[3] += 1
    elif f == "end":
        n[4] -= 1
    elif f == "add-child":
        n[5].append(["", b"", "", 0, 0, []])
    elif f == "remove-child":
        if not n[5]:
            return o.exclude("no child to remove")
        n[5].pop()
    a, b = build(t), build(t2)
    if a == b or b == a or not (a != b):
        o.violate("eq:ignores-" + f.split("-")[0], {"field": f, "depth": len(path)})
    if tree_to_json(a) == tree_to_json(b):
        o.violate("json:same-encoding-for-different-trees:" + f.split("-")[0], {"field": f, "depth": len(path)})
    if not (a == build(t)):
        o.violate("eq:equal-trees-unequal", {})
    o.nontrivial = len(path) >= 1
    o.label("perturb:" + f)
    if len(path) >= 3:
        o.label("perturb-depth>=3")
    return o


# -------------------------------------------------------------------------------------------------
# CLI
# -------------------------------------------------------------------------------------------------
def escape_bytes(b: bytes) -> str:
    """independent rendering of repr(bytes)[2:-1]"""
    use_double = (b"'" in b) and (b'"' not in b)
    out = []
    for c in b:
        ch = chr(c)
        if ch == "\\":
            out.append("\\\\")
        elif ch == "'" and not use_double:
            out.append("\\'")
        elif ch == "\t":
            out.append("\\t")
        elif ch == "\n":
            out.append("\\n")
        elif ch == "\r":
            out.append("\\r")
        elif 0x20 <= c < 0x7F:
            out.append(ch)
        else:
            out.append("\\x%02x" % c)
    return "".join(out)


def summary_lines(root, obf_first: bool):
    lines = []
    chain = []

    def parts(n):
        p = []
        if obf_first:
            if n.obfuscation:
                p.append(">" + n.obfuscation)
            if n.type:
                p.append(n.type)
        else:
            if n.type:
                p.append(n.type)
            if n.obfuscation:
                p.append(">" + n.obfuscation)
        return p

    def rec(n):
        for c in n.children:
            chain.append(parts(c))
            label = "/".join(x for ps in [parts(root)] + chain for x in ps)
            lines.append(label + " " + escape_bytes(c.value))
            rec(c)
            chain.pop()

    rec(root)
    return lines


def has_substituted_overlap(node) -> bool:
    value = node.value
    last_end = 0
    for c in node.children:
        if has_substituted_overlap(c):
            return True
        f = ref_flatten(c)
        if f != value[c.start : c.end]:
            if c.start < last_end:
                return True
            last_end = c.end
    return False


def run_main(argv, stdin_bytes):
    """run the command line's main() in-process; returns (stdout bytes, stderr text)"""
    ensure_version_stub()
    from multidecoder import __main__ as cli

    out = io.TextIOWrapper(io.BytesIO(), encoding="utf-8", errors="surrogateescape", write_through=True)
    err = io.StringIO()
    old = (sys.argv, sys.stdin, sys.stdout, sys.stderr)
    sys.argv = ["multidecoder"] + argv
    sys.stdin = io.TextIOWrapper(io.BytesIO(stdin_bytes))
    sys.stdout = out
    sys.stderr = err
    try:
        cli.main()
        out.flush()
        return out.buffer.getvalue(), err.getvalue()
    finally:
        sys.argv, sys.stdin, sys.stdout, sys.stderr = old


def run_subprocess(argv, stdin_bytes):
    env = dict(os.environ, PYTHONPATH=REPO_SRC, PYTHONIOENCODING="utf-8")
    p = subprocess.run([sys.executable, "-m", "multidecoder"] + argv, input=stdin_bytes, capture_output=True, env=env, cwd=VERIF_DIR, timeout=120, preexec_fn=die_with_parent)
    return p.stdout, p.stderr.decode("utf-8", "replace")


def _scratch():
    for base in ("/dev/shm", os.path.join(VERIF_DIR, ".scratch")):
        if os.path.isdir(base) and os.access(base, os.W_OK):
            return base
    os.makedirs(os.path.join(VERIF_DIR, ".scratch"), exist_ok=True)
    return os.path.join(VERIF_DIR, ".scratch")


def cli_docs():
    return st.one_of(S.documents(heavy=False, max_frags=3), S.nested_docs(), st.binary(max_size=40), S.token_soup(8))


def cli_cases():
    return st.fixed_dictionaries(
        {
            "data": cli_docs(),
            "input": st.sampled_from(["file", "stdin"]),
            "mode": st.sampled_from(["default", "--json", "--replace", "-j", "-r"]),
            "keywords": st.one_of(st.none(), st.none(), st.lists(st.sampled_from([b"lorem", b"strlen", b"evil", b"ipsum dolor", b"cmd"]), min_size=1, max_size=3, unique=True)),
        }
    )


_lib = {}


def library_tree(data, kwdir):
    from multidecoder.multidecoder import Multidecoder
    from multidecoder.registry import build_registry

    if kwdir is None:
        if "default" not in _lib:
            _lib["default"] = Multidecoder()
        return _lib["default"].scan(data)
    return Multidecoder(build_registry(kwdir)).scan(data)


def check_cli(case, runner=run_main) -> Outcome:
    from multidecoder.json_conversion import tree_to_json

    o = Outcome()
    data = case["data"]
    d = tempfile.mkdtemp(prefix="vf-c20-", dir=_scratch())
    try:
        argv = []
        kwdir = None
        if case["keywords"] is not None:
            kwdir = os.path.join(d, "kw")
            os.makedirs(os.path.join(kwdir, "sub"))
            with open(os.path.join(kwdir, "custom.list"), "wb") as f:
                f.write(b"\n".join(case["keywords"]) + b"\n")
            with open(os.path.join(kwdir, "sub", "other"), "wb") as f:
                f.write(b"zzyzx\n\n")
            argv += ["--keywords", kwdir]
        if case["mode"] != "default":
            argv.append(case["mode"])
        stdin = b""
        if case["input"] == "file":
            path = os.path.join(d, "input.bin")
            with open(path, "wb") as f:
                f.write(data)
            argv.append(path)
        else:
            stdin = data
        try:
            tree = guarded(10.0, library_tree, data, kwdir)
            out, err = runner(argv, stdin)
        except CaseTimeout:
            return o.exclude("slow-scan")
        except RecursionError:
            return o.exclude("deep-nesting(K5)")
        except SystemExit as e:
            return o.violate("cli:exits", {"code": repr(e.code), "argv": argv[-2:]})
        except Exception as e:
            return o.violate("cli:raises:" + type(e).__name__, {"error": repr(e)[:300], "mode": case["mode"]})
        mode = {"-j": "--json", "-r": "--replace"}.get(case["mode"], case["mode"])
        if mode == "--json":
            try:
                got = json.loads(out.decode("utf-8"))
            except Exception as e:
                return o.violate("cli:json-invalid", {"error": repr(e)[:200]})
            if got != json.loads(tree_to_json(tree)):
                o.violate("cli:json-differs-from-library", {"data": data, "input": case["input"]})
            if out.count(b"\n") != 1 or not out.endswith(b"\n"):
                o.violate("cli:json-framing", {"newlines": out.count(b"\n")})
        elif mode == "--replace":
            try:
                overlap = has_substituted_overlap(tree)
                flat = tree.flatten()
            except RecursionError:
                return o.exclude("deep-nesting(K5)")
            if overlap:
                o.exclude("substituted results overlap (premise of the --replace clause not met)")
            elif out != flat:
                o.violate("cli:replace-differs-from-flatten", {"data": data, "got": out, "expected": flat})
        else:
            text = out.decode("utf-8", "surrogateescape")
            lines = text.split("\n")
            if lines and lines[-1] == "":
                lines.pop()
            exp_a = summary_lines(tree, obf_first=True)
            exp_b = summary_lines(tree, obf_first=False)
            if lines != exp_a and lines != exp_b:
                if len(lines) != len(exp_a):
                    o.violate("cli:summary-line-count", {"data": data, "got": len(lines), "nodes": len(exp_a)})
                else:
                    bad = [(g, e) for g, e in zip(lines, exp_a) if g != e][:3]
                    o.violate("cli:summary-line-content", {"data": data, "first_differences": bad})
        o.nontrivial = bool(tree.children)
        o.label("cli:" + mode + ":" + case["input"] + (":keywords" if kwdir else ""))
    finally:
        shutil.rmtree(d, ignore_errors=True)
    return o


def check_cli_subprocess(case) -> Outcome:
    return check_cli(case, runner=run_subprocess)


def units(tier):
    q = tier == "quick"
    return [
        Unit("json", "hyp", check=check_json, strategy=json_cases, budget=30000 if q else 500000),
        Unit("perturb", "hyp", check=check_perturb, strategy=perturb_cases, budget=30000 if q else 500000),
        Unit("cli", "hyp", check=check_cli, strategy=cli_cases, budget=5000 if q else 80000),
        Unit("cli_subprocess", "hyp", check=check_cli_subprocess, strategy=cli_cases, budget=96 if q else 1600),
    ]
