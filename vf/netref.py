"""Independent reference implementations for network indicators (used by C10, C11, C12):
percent normalisation / decoding, URL path normalisation, inet_aton-style IPv4 parsing, IPv6 compression,
an RFC 3986 authority splitter and a Windows path normaliser. Nothing here imports multidecoder code except the
IANA TLD table (the statement's 'registered top-level domain')."""
from __future__ import annotations

import re

UNRESERVED = b"ABCDEFGHIJKLMNOPQRSTUVWXYZabcdefghijklmnopqrstuvwxyz0123456789-._~"
_HEX = b"0123456789abcdefABCDEF"


def _triples(b: bytes):
    """yield (is_escape, bytes) pieces"""
    i = 0
    n = len(b)
    lit = bytearray()
    while i < n:
        if b[i] == 0x25 and i + 2 < n and b[i + 1] in _HEX and b[i + 2] in _HEX:
            if lit:
                yield False, bytes(lit)
                lit = bytearray()
            yield True, b[i : i + 3]
            i += 3
        else:
            lit.append(b[i])
            i += 1
    if lit:
        yield False, bytes(lit)


def pct_normalise(b: bytes) -> bytes:
    out = bytearray()
    for esc, piece in _triples(b):
        if esc:
            c = int(piece[1:], 16)
            if c in UNRESERVED:
                out.append(c)
            else:
                out += piece.upper()
        else:
            out += piece
    return bytes(out)


def pct_decode(b: bytes) -> bytes:
    out = bytearray()
    for esc, piece in _triples(b):
        if esc:
            out.append(int(piece[1:], 16))
        else:
            out += piece
    return bytes(out)


def url_path_ref(path: bytes):
    """(normalised path, removed_any): percent-decode every segment but keep an encoded slash as %2F; drop '.' segments;
    '..' cancels the nearest remaining segment before it but never the root of an absolute path"""
    segs = [pct_decode(s).replace(b"/", b"%2F") for s in path.split(b"/")]
    out = []
    removed = False
    absolute = path.startswith(b"/")
    for s in segs:
        if s == b".":
            removed = True
        elif s == b"..":
            removed = True
            if absolute:
                if len(out) > 1:
                    out.pop()
            elif out:
                out.pop()
        else:
            out.append(s)
    if out == [b""]:
        return b"/", True
    return b"/".join(out), removed


# ---- IPv4 ------------------------------------------------------------------------------------------------
def canonical_quad(b: bytes) -> bool:
    parts = b.split(b".")
    if len(parts) != 4:
        return False
    for p in parts:
        if not p or not p.isdigit() or len(p) > 3:
            return False
        if len(p) > 1 and p[:1] == b"0":
            return False
        if int(p) > 255:
            return False
    return True


def inet_aton_ref(b: bytes):
    """strict inet_aton: 1-4 parts, each decimal / 0octal / 0xhex, last part fills the remaining bytes.
    Returns the canonical dotted quad or None. (No trailing garbage, unlike glibc.)"""
    parts = b.split(b".")
    if not 1 <= len(parts) <= 4:
        return None
    vals = []
    for p in parts:
        if not p:
            return None
        try:
            if p[:2].lower() == b"0x":
                if len(p) == 2:
                    return None
                v = int(p[2:], 16)
            elif p[:1] == b"0" and len(p) > 1:
                if not re.fullmatch(rb"[0-7]+", p):
                    return None
                v = int(p, 8)
            else:
                if not p.isdigit():
                    return None
                v = int(p)
        except ValueError:
            return None
        vals.append(v)
    for v in vals[:-1]:
        if v > 255:
            return None
    last_bytes = 4 - (len(vals) - 1)
    if vals[-1] >= 256**last_bytes:
        return None
    total = 0
    for v in vals[:-1]:
        total = total * 256 + v
    total = total * (256**last_bytes) + vals[-1]
    return b"%d.%d.%d.%d" % (total >> 24 & 255, total >> 16 & 255, total >> 8 & 255, total & 255)


# ---- IPv6 ------------------------------------------------------------------------------------------------
def ipv6_groups(b: bytes):
    """parse an IPv6 literal (with optional embedded IPv4 tail) into 8 16-bit groups, or None"""
    try:
        s = b.decode("ascii")
    except UnicodeDecodeError:
        return None
    if not s or not re.fullmatch(r"[0-9A-Fa-f:.]+", s):
        return None
    if s.count("::") > 1:
        return None

    def side(t):
        if t == "":
            return []
        gs = []
        parts = t.split(":")
        for i, p in enumerate(parts):
            if "." in p:
                if i != len(parts) - 1 or not canonical_quad(p.encode()):
                    return None
                a, b_, c, d = (int(x) for x in p.split("."))
                gs += [a * 256 + b_, c * 256 + d]
            else:
                if not 1 <= len(p) <= 4:
                    return None
                gs.append(int(p, 16))
        return gs

    if "::" in s:
        l, r = s.split("::")
        lg, rg = side(l), side(r)
        if lg is None or rg is None or len(lg) + len(rg) > 7:
            return None
        return lg + [0] * (8 - len(lg) - len(rg)) + rg
    g = side(s)
    if g is None or len(g) != 8:
        return None
    return g


def ipv6_compress(groups) -> bytes:
    # longest run of zeros (length >= 2), leftmost
    best, bl = -1, 0
    i = 0
    while i < 8:
        if groups[i] == 0:
            j = i
            while j < 8 and groups[j] == 0:
                j += 1
            if j - i > bl and j - i >= 2:
                best, bl = i, j - i
            i = j
        else:
            i += 1
    hexs = ["%x" % g for g in groups]
    if best < 0:
        return ":".join(hexs).encode()
    return (":".join(hexs[:best]) + "::" + ":".join(hexs[best + bl :])).encode()


# ---- domains ---------------------------------------------------------------------------------------------
_tlds = None


def tlds():
    global _tlds
    if _tlds is None:
        from multidecoder.domains import TOP_LEVEL_DOMAINS

        _tlds = frozenset(t.upper() for t in TOP_LEVEL_DOMAINS)
    return _tlds


def is_registered_domain(b: bytes) -> bool:
    if b"." not in b:
        return False
    name, tld = b.rsplit(b".", 1)
    return bool(name) and tld.upper() in tlds()


# ---- RFC 3986 splitter (own, not urlsplit) ------------------------------------------------------------------
def split_url(u: bytes):
    """returns dict(scheme, userinfo|None, host, port|None, path, query|None, fragment|None) with raw texts, or None"""
    m = re.match(rb"([A-Za-z][A-Za-z0-9+.-]*)://", u)
    if not m:
        return None
    scheme = m.group(1)
    rest = u[m.end() :]
    frag = None
    if b"#" in rest:
        rest, frag = rest.split(b"#", 1)
    query = None
    if b"?" in rest:
        rest, query = rest.split(b"?", 1)
    if b"/" in rest:
        i = rest.index(b"/")
        authority, path = rest[:i], rest[i:]
    else:
        authority, path = rest, b""
    userinfo = None
    hostport = authority
    if b"@" in authority:
        userinfo, hostport = authority.rsplit(b"@", 1)
    port = None
    host = hostport
    m2 = re.search(rb":(\d*)$", hostport)
    if m2 and not hostport.endswith(b"]") :
        host, port = hostport[: m2.start()], m2.group(1)
    return {"scheme": scheme, "userinfo": userinfo, "host": host, "port": port, "path": path, "query": query, "fragment": frag}


# ---- Windows paths ----------------------------------------------------------------------------------------
def win_normalise(prefix: bytes, protected: int, rooted: bool, segments):
    """normalise `prefix + '\\'.join(segments)`: drop '.', '..' cancels the previous remaining non-'..' segment but never
    one of the first `protected` segments; at a rooted prefix a leading '..' is dropped, in a relative path it is kept."""
    out = []
    for s in segments:
        if s == b"." or s == b"":
            continue
        if s == b"..":
            if len(out) > protected and out[-1] != b"..":
                out.pop()
            elif rooted or protected:
                continue
            else:
                out.append(s)
        else:
            out.append(s)
    return prefix + b"\\".join(out)
