"""CPU-budget verdict for a case that got stuck inside C code (no line events to count):
run one scan in a fresh interpreter under RLIMIT_CPU; on SIGXCPU the Python stack is dumped (faulthandler) and the
process ends. Prints one JSON line {"verdict": "terminates"|"cpu-budget", "cpu_s": float}; the stack goes to stderr.

usage: python -m vf.cpucheck <input file> <depth|none> <cpu seconds>
"""
import faulthandler
import json
import resource
import signal
import sys
import time

import vf  # noqa: F401


def main():
    path, depth, cpu_s = sys.argv[1], sys.argv[2], int(sys.argv[3])
    data = open(path, "rb").read()
    from multidecoder.json_conversion import tree_to_json
    from multidecoder.multidecoder import Multidecoder
    from multidecoder.query import string_summary

    md = Multidecoder()
    faulthandler.register(signal.SIGXCPU, all_threads=False, chain=True)
    resource.setrlimit(resource.RLIMIT_CPU, (cpu_s, cpu_s + 5))
    try:
        resource.setrlimit(resource.RLIMIT_AS, (2 << 30, 2 << 30))
    except Exception:
        pass
    t0 = time.process_time()
    try:
        t = md.scan(data) if depth == "none" else md.scan(data, int(depth))
        t.flatten()
        list(t)
        string_summary(t)
        tree_to_json(t)
    except BaseException:
        pass
    print(json.dumps({"verdict": "terminates", "cpu_s": round(time.process_time() - t0, 2)}))


if __name__ == "__main__":
    main()
