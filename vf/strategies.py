"""Shared Hypothesis strategies: neutral filler, indicator grammars (+ near-misses), obfuscation fragments,
a PE builder, recursive wrappers and the token soup used for totality / engine properties.

All strategies are constructive. Large blobs (byte arrays, PE bodies) are expanded deterministically from a few
drawn values so that Hypothesis' choice-sequence budget is not exhausted.
"""
from __future__ import annotations

import base64
import binascii
import struct

from hypothesis import strategies as st

# ---------------------------------------------------------------------------------------------
# neutral filler
# ---------------------------------------------------------------------------------------------
WORDS = [b"lorem", b"ipsum", b"dolor", b"amet", b"quux", b"zzyzx"]
SEPS = [b" ", b"\n", b"\t", b"; "]


def neutral(min_words=0, max_words=4):
    return st.lists(st.sampled_from(WORDS), min_size=min_words, max_size=max_words).map(b" ".join)


LOWER = b"abcdefghijklmnopqrstuvwxyz"
DIGITS = b"0123456789"
LD = LOWER + DIGITS


def word(lo=1, hi=8, alphabet=LD):
    return st.lists(st.sampled_from(list(alphabet)), min_size=lo, max_size=hi).map(bytes)


def quoted(inner):
    return st.tuples(st.sampled_from([b"'", b'"']), inner).map(lambda t: t[0] + t[1] + t[0])


# ---------------------------------------------------------------------------------------------
# PE builder (accepted by pefile; validated at start-up by the properties that rely on it)
# ---------------------------------------------------------------------------------------------
def make_pe(e_lfanew=0x80, nsec=1, sec_sizes=(0x200,), file_align=0x200, pe64=False, truncate=None, extra_ptr=0, fill=None):
    dos = bytearray(b"MZ" + b"\x00" * (0x3C - 2) + struct.pack("<I", e_lfanew))
    dos += b"\x00" * (e_lfanew - len(dos))
    opt_size = 0xF0 if pe64 else 0xE0
    coff = struct.pack("<HHIIIHH", 0x8664 if pe64 else 0x14C, nsec, 0, 0, 0, opt_size, 0x0102 if not pe64 else 0x22)
    hdr_size = e_lfanew + 4 + 20 + opt_size + 40 * nsec
    hdr_size_al = (hdr_size + file_align - 1) // file_align * file_align
    if pe64:
        opt = struct.pack("<HBBIIIII", 0x20B, 14, 0, 0x200, 0, 0, 0x1000, 0x1000)
        opt += struct.pack("<QIIHHHHHHIIIIHH", 0x140000000, 0x1000, file_align, 6, 0, 0, 0, 6, 0, 0, 0x1000 * (nsec + 1), hdr_size_al, 0, 3, 0)
        opt += struct.pack("<QQQQII", 0x100000, 0x1000, 0x100000, 0x1000, 0, 16)
    else:
        opt = struct.pack("<HBBIIIIII", 0x10B, 14, 0, 0x200, 0, 0, 0x1000, 0x1000, 0x2000)
        opt += struct.pack("<IIIHHHHHHIIIIHH", 0x400000, 0x1000, file_align, 6, 0, 0, 0, 6, 0, 0, 0x1000 * (nsec + 1), hdr_size_al, 0, 3, 0)
        opt += struct.pack("<IIIIII", 0x100000, 0x1000, 0x100000, 0x1000, 0, 16)
    opt += b"\x00" * (16 * 8)
    assert len(opt) == opt_size
    secs = b""
    ptr = hdr_size_al
    body = b""
    for i in range(nsec):
        sz = sec_sizes[i % len(sec_sizes)]
        secs += struct.pack("<8sIIIIIIHHI", b".s%d" % i, sz, 0x1000 * (i + 1), sz, ptr + extra_ptr, 0, 0, 0, 0, 0x60000020)
        body += bytes(((i + 1) if fill is None else fill) for _ in range(sz))
        ptr += sz
    out = bytes(dos) + b"PE\0\0" + coff + opt + secs
    out += b"\x00" * (hdr_size_al - len(out)) + body
    if truncate is not None:
        out = out[:truncate]
    return out


@st.composite
def pe_params(draw, allow_damage=False):
    nsec = draw(st.integers(1, 4))
    p = {
        "e_lfanew": draw(st.sampled_from([0x40, 0x80, 0xC0, 0x100])),
        "nsec": nsec,
        "sec_sizes": draw(st.lists(st.sampled_from([0x200, 0x400, 0x600]), min_size=nsec, max_size=nsec)),
        "pe64": draw(st.booleans()),
    }
    if allow_damage:
        kind = draw(st.sampled_from(["ok", "ok", "truncate", "ptr", "lfanew", "byteflip"]))
        p["damage"] = kind
        p["damage_arg"] = draw(st.integers(0, 4000))
        p["damage_val"] = draw(st.integers(0, 255))
    return p


def build_pe(p) -> bytes:
    pe = make_pe(e_lfanew=p["e_lfanew"], nsec=p["nsec"], sec_sizes=tuple(p["sec_sizes"]), pe64=p["pe64"], extra_ptr=(p.get("damage_arg", 0) if p.get("damage") == "ptr" else 0))
    d = p.get("damage", "ok")
    if d == "truncate":
        pe = pe[: p["damage_arg"] % (len(pe) + 1)]
    elif d == "lfanew":
        pe = pe[:0x3C] + struct.pack("<I", p["damage_arg"] * 7 % 0x400) + pe[0x40:]
    elif d == "byteflip":
        i = p["damage_arg"] % min(len(pe), 0x400)
        pe = pe[:i] + bytes([p["damage_val"]]) + pe[i + 1 :]
    return pe


# ---------------------------------------------------------------------------------------------
# payloads and encodings used by the soup (own, simple encoders; exactness is C13-C15's business)
# ---------------------------------------------------------------------------------------------
PAYLOADS = [
    b"http://evil.example.com/a/b.exe",
    b"1.2.3.4",
    b"cmd /c calc.exe",
    b"some plain text here",
    b"mail@example.org",
    b"C:\\Users\\bob\\evil.dll",
    b"powershell -e ZQBjAGgAbwAgAGIAZQBlAA==",
    b"strlen VirtualAlloc kernel32",
    b"CreateObject(\"WScript.Shell\")",
    b"https://user:pw@10.0.0.7:8080/x/../y?q=%41#f",
]


def payload():
    return st.one_of(st.sampled_from(PAYLOADS), st.binary(min_size=1, max_size=30))


def b64(p: bytes) -> bytes:
    return base64.b64encode(p)


def hexs(p: bytes, upper=False) -> bytes:
    h = binascii.hexlify(p)
    return h.upper() if upper else h


def utf16(p: bytes) -> bytes:
    return b"".join(bytes([c, 0]) for c in p)


def xmlrefs(p: bytes, style=0) -> bytes:
    f = [b"&#%d;", b"&#x%02x;", b"&#X%02X;", b"&#%03d;"][style % 4]
    return b"".join(f % c for c in p)


def ps_bytes(p: bytes, pattern=(True, False)) -> bytes:
    """PowerShell byte array spelling of p padded to >= 501 elements; element spelling cycles over pattern."""
    if len(p) < 501:
        p = p + b" " + b" ".join(WORDS[i % len(WORDS)] for i in range(100))
    p = p[:700]
    return b", ".join((b"0x%02x" % c) if pattern[i % len(pattern)] else (b"%d" % c) for i, c in enumerate(p))


def strlit():
    return quoted(word(0, 8, b"abcdefXYZ012 .:/-_"))


# ---------------------------------------------------------------------------------------------
# fragments: the accepted language of every decoder plus near-misses / malformed edges
# ---------------------------------------------------------------------------------------------
def _j(*parts):
    """strategy joining sub-strategies / constants"""
    parts = [st.just(p) if isinstance(p, bytes) else p for p in parts]
    return st.tuples(*parts).map(b"".join)


def _xor_suffix():
    return st.one_of(
        st.just(b""),
        st.integers(0, 999).map(lambda n: b" -bxor %d" % n),
        st.sampled_from([b"-xor 12", b" -bxor 300", b" -bxor", b" -BXOR 0x41", b"-bxor256", b" -xor 255"]),
    )


def frag_base64():
    return st.one_of(
        payload().map(b64),
        _j(b"atob(", quoted(payload().map(b64)), b")"),
        _j(b"Base64Decode(", quoted(payload().map(b64)), b")"),
        _j(st.sampled_from([b"", b"[System.Convert]::"]), b"FromBase64String(", quoted(payload().map(b64)), b")", _xor_suffix()),
        # near misses: bad padding, short, line wrapped
        payload().map(lambda p: b64(p)[:-1]),
        payload().map(lambda p: b"\r\n".join(b64(p * 3)[i : i + 16] for i in range(0, len(b64(p * 3)), 16))),
        payload().map(lambda p: b"&#13;&#10;".join(b64(p * 3)[i : i + 20] for i in range(0, len(b64(p * 3)), 20))),
        _j(b"atob('", word(0, 9, b"AQ=+/z"), b"')"),
    )


def frag_hex():
    return st.one_of(
        st.tuples(payload(), st.booleans()).map(lambda t: hexs(t[0], t[1])),
        st.tuples(payload(), st.booleans()).map(lambda t: b"FromHexString('" + hexs(t[0] + b"0123456789", t[1]) + b"')"),
        _j(st.sampled_from([b"", b"[System.Convert]::"]), b"FromHexString('", payload().map(lambda p: hexs(p + b"0123456789")), b"')", _xor_suffix()),
        word(18, 26, b"0123456789ABCDEF"),
        word(18, 26, b"0123456789abcdefg"),
        st.just(b"12345678901234567890ABCDEF"),
    )


def frag_xml():
    ref = st.one_of(
        st.integers(0, 300).map(lambda n: b"&#%d;" % n),
        st.integers(0, 260).map(lambda n: b"&#%03d;" % n),
        st.integers(0, 99).map(lambda n: b"&#%02d;" % n),
        st.integers(0, 255).map(lambda n: b"&#x%02x;" % n),
        st.integers(0, 255).map(lambda n: b"&#X%02X;" % n),
        st.tuples(st.sampled_from(list(b"0123456789abcdefgxzGZ")), st.sampled_from(list(b"0123456789abcdefgxzGZ"))).map(lambda t: b"&#x%c%c;" % t),
        st.sampled_from([b"&#;", b"&#x;", b"&#0065;", b"&#65", b"&#x041;"]),
    )
    return st.lists(ref, min_size=3, max_size=9).map(b"".join)


BIGNUMS = [b"%d" % n for n in (2**31 - 1, 2**31, 2**32, 2**63, 2**64, 10**20, 10**100)] + [b"9" * 4300, b"9" * 4301, b"1" + b"0" * 5000]


def frag_chr():
    n = st.one_of(st.sampled_from([65, 0, 255, 256, 55296, 57343, 65535, 99999, 1114111]), st.integers(0, 99999)).map(lambda n: b"%d" % n)
    n = st.one_of(n, n, n, st.sampled_from(BIGNUMS[:7]))
    return st.tuples(st.sampled_from([b"chr", b"chrw", b"chrb", b"ChrW", b"CHR"]), n, st.integers(0, 3)).map(lambda t: t[0] + b"(" + b"0" * t[2] + t[1] + b")")


def frag_unescape():
    piece = st.sampled_from([b"%41", b"%zz", b"%", b"a", b"%2f", b"%u0041", b"%4", b"\xe9", b"%E9", b" "])
    return st.lists(piece, max_size=6).map(lambda ps: b"unescape('" + b"".join(ps) + b"')")


def frag_utf16():
    return st.one_of(
        payload().map(lambda p: utf16(p[:20])),
        st.binary(min_size=5, max_size=12).map(utf16),
        st.tuples(payload(), payload()).map(lambda t: utf16(t[0][:10] + b"abcdefg") + b"\x00\x00" + utf16(t[1][:10] + b"hijklmn")),
        # runs chained through NUL gaps of any length (an odd gap shifts the alignment of the next run)
        st.lists(st.tuples(st.sampled_from(WORDS).map(lambda w: utf16((w + b"abcdefg")[: 6 + len(w) % 4])), st.integers(0, 7)), min_size=2, max_size=5).map(lambda rs: b"".join(r + b"\x00" * g for r, g in rs)),
    )


CONCAT_SEPS = [b" + ", b"&", b" & _\r\n ", b" &amp; ", b"+", b"\t+\n"]


def frag_concat():
    return st.tuples(st.lists(strlit(), min_size=2, max_size=4), st.sampled_from(CONCAT_SEPS)).map(lambda t: t[1].join(t[0]))


def frag_reverse():
    return _j(st.sampled_from([b"reverse(", b"reversed(", b"StrReverse(", b"strreverse( "]), strlit(), st.sampled_from([b")", b" )", b""]))


def frag_replace():
    return st.one_of(
        _j(strlit(), b".replace(", strlit(), b", ", strlit(), b")"),
        _j(b"Replace(", strlit(), b",", strlit(), b",", strlit(), b")"),
        _j(strlit(), b" -replace ", strlit(), b",", strlit()),
        _j(strlit(), b".replace(/", st.sampled_from([b"a", b"bc", b"X", b"a.b", b""]), b"/", st.sampled_from([b"", b"g", b"gi", b"gimx"]), b", ", strlit(), b")"),
    )


CMD_TOKENS = [b"cmd", b"cmd.exe", b'"cmd"', b"c^md", b"c^m^d", b'"cmd.exe"', b'"C:\\WINDOWS\\system32\\cmd.exe"', b"C:\\Windows\\System32\\cmd", b"CMD"]
CMD_PIECES = [b"echo", b" ", b"^", b"(", b")", b'"', b"\r\n", b"\r", b"^\r\n", b"^\r", b"a", b"&", b"'", b"/c", b"e^cho", b"\n", b"\x00", b"^^", b'^"']


def frag_cmd():
    return st.tuples(st.sampled_from(CMD_TOKENS), st.sampled_from([b" /c ", b" ", b"/c", b"", b"\t"]), st.lists(st.sampled_from(CMD_PIECES), max_size=10)).map(
        lambda t: t[0] + t[1] + b"".join(t[2])
    )


PS_TOKENS = [b"powershell", b"pwsh", b"p^ower^shell", b"powershell.exe", b"PowerShell", b"^p^w^s^h", b"pwsh.exe"]
PS_MID = [b" ", b"", b" -nop ", b" /nop /w ", b" -w hidden ", b"^ ", b" -NoP -sta "]
PS_ENC = [b"-e ", b"/e ", b"-enc ", b"-EncodedCommand ", b"/e^\r\n", b"-e^ ", b"-ec ", b"-Command ", b"-e", b"/enco\t", b"-^e^n^c "]
PS_ARG = [b"ZQBjAGgAbwAgAGIAZQBlAA==", b"AAAA", b"ZQBj^AGgAbwAgAGIAZQ^BlAA==", b"QUJD", b"echo hi", b"AAA", b"ZQBjAGgAbw", b"A" * 12, b"////"]


def frag_powershell():
    q = st.sampled_from([b"", b'"', b"'"])
    return st.tuples(st.sampled_from(PS_TOKENS), st.sampled_from(PS_MID), st.sampled_from(PS_ENC), q, st.sampled_from(PS_ARG), q).map(b"".join)


URL_SCHEMES = [b"http", b"https", b"ftp", b"HtTp", b"HTTP", b"hxxp", b"file"]
URL_USERINFO = [b"", b"user@", b"user:pw@", b"user:@", b":pw@", b"u%40x:p@", b"@"]
URL_HOSTS = [b"example.com", b"1.2.3.4", b"0x7f.1", b"[::1]", b"%65xample.com", b"evil.example.co.uk", b"017700000001", b"1.2.3.4%20x", b"%5B::1%5D", b"[::1", b"a.b", b"3232235777", b"0300.0250.0.1", b"example.com.", b"xn--e1afmkfd.xn--p1ai", b"[1::2::3]", b".com", b"%2Eio"]
URL_PORTS = [b"", b":80", b":", b":99999", b":65535", b":0", b":8080"]
URL_PATHS = [b"", b"/", b"/a/b", b"/a/../b", b"/../..", b"/a/./b/", b"/%41%2f%2Fx", b"/a%2e%2e/b", b"/a/b.exe", b"/.", b"/..", b"/a//b", b"/%zz", b"/x)", b"/a'b"]
URL_QUERIES = [b"", b"?", b"?q=1", b"?q=%41&r=%zz", b"?u=http://1.2.3.4/"]
URL_FRAGS = [b"", b"#", b"#frag", b"#f%41"]


def frag_url():
    return st.tuples(*(st.sampled_from(x) for x in (URL_SCHEMES, [b"://"], URL_USERINFO, URL_HOSTS, URL_PORTS, URL_PATHS, URL_QUERIES, URL_FRAGS))).map(b"".join)


def frag_net():
    octet = st.sampled_from([0, 1, 10, 127, 255, 256, 8, 192, 99])
    return st.one_of(
        st.sampled_from([b"example.com", b"sub.example.org", b"a.b", b"this.global", b"evil-site.xn--p1ai", b"Date.now", b"x.zz", b"foo.travelersinsurance", b"EXAMPLE.COM", b"libfoo.so", b"exa_mple.com"]),
        st.tuples(octet, octet, octet, octet).map(lambda t: b"%d.%d.%d.%d" % t),
        st.sampled_from([b"010.1.1.1", b"0x10.1.1.1", b"1.2.3", b"1.2.3.4.5", b"version=1.2.3.4", b"<t>1.2.3.4", b"sec. 1.2.3.4"]),
        _j(st.sampled_from([b"user", b"a.b-c", b"x", b"first.last+tag"]), b"@", st.sampled_from([b"example.com", b"mail.example.org", b"nowhere.zz"])),
    )


def frag_path():
    return st.one_of(
        st.sampled_from([b"/usr/bin/python", b"./abc/def/ghi.txt", b"../etc/passwd/xx", b"/ab/cd", b"/abc/def"]),
        st.tuples(
            st.sampled_from([b"C:\\", b"\\\\host.com\\", b"\\\\1.2.3.4@SSL@80\\", b"\\\\?\\C:\\", b"\\\\.\\UNC\\host.com\\", b"\\\\?\\UNC\\", b"\\\\.\\", b"D:", b"\\", b"", b"\\\\?\\Volume{12345678-1234-1234-1234-123456789abc}\\", b"\\\\.\\UNC\\1.2.3.4\\c$\\", b"\\\\?\\UNC\\.\\", b"\\\\.\\UNC\\..\\"]),
            st.lists(st.sampled_from([b"abc\\", b"..\\", b".\\", b"Program-Files\\", b"x.y\\", b"UNC\\"]), min_size=1, max_size=4),
            st.sampled_from([b"file.exe", b"lib.dll", b"notes.txt", b"abc", b"...", b"a.b.c"]),
        ).map(lambda t: t[0] + b"".join(t[1]) + t[2]),
        st.sampled_from([b"evil.exe", b"kernel32.dll", b"A_b.EXE"]),
    )


def frag_straddle():
    """two plain indicators glued so that their spans overlap partially (a path whose last segment begins an e-mail address,
    a domain or a cmd command; an e-mail address whose domain begins a Windows path)"""
    net = st.sampled_from([b"john@example.com", b"www.evil-site.com", b"first.last@mail.example.org", b"cdn.example.org", b"cmd.exe /c dir"])
    return st.one_of(
        _j(st.sampled_from([b"/tmp/abc/", b"/var/www/", b"C:\\Users\\bob\\", b"/a/bb/ccc/", b"D:\\x\\"]), net),
        _j(st.sampled_from([b"a.b@example.com", b"user@mail.example.org"]), st.sampled_from([b"\\dir\\file.exe", b"\\x\\y.dll"])),
    )


def frag_nested_kw():
    """plain indicators nested three deep with two hits inside the middle one: keywords as labels of a domain inside an e-mail
    address, or as segments of a path (after the first keyword closes, the second one belongs to the middle context again)"""
    kw = st.sampled_from([b"strlen", b"kernel32", b"VirtualAlloc", b"GetProcAddress", b"ftp", b"smtp", b"socket"])
    return st.one_of(
        _j(st.sampled_from([b"bob@", b"first.last@", b""]), kw, b".", kw, st.sampled_from([b".example.com", b".mail.example.org"])),
        _j(st.sampled_from([b"/tmp/", b"/usr/lib/", b"C:\\dir\\"]), kw, st.sampled_from([b"/", b"\\", b"-"]), kw, st.sampled_from([b"/x", b".txt", b""])),
    )


def frag_vba():
    return _j(st.sampled_from([b"CreateObject(", b"createobject("]), st.sampled_from([b'"WScript.Shell"', b"(a)(b)", b"((", b"x", b""]), st.sampled_from([b")", b"", b"))"]))


def frag_pe():
    return pe_params(allow_damage=True).map(build_pe)


def frag_psbytes():
    pat = st.lists(st.booleans(), min_size=1, max_size=3).map(tuple)
    return st.one_of(
        st.tuples(payload(), pat, _xor_suffix()).map(lambda t: ps_bytes(t[0], t[1]) + t[2]),
        st.tuples(st.integers(495, 505), st.integers(250, 260)).map(lambda t: b",".join(b"%d" % ((i * 7) % t[1]) for i in range(t[0]))),
    )


KEYWORDS = [b"strlen", b"StrLen", b"VirtualAlloc", b"kernel32", b"CreateFileW", b"WScript.Shell", b"GetProcAddress"]
EDGE = [b"(", b")", b'"', b"'", b"'(", b"')", b"^", b"\r\n", b"\x00", b"=", b"version=", b"<t>", b"sec. ", b"^\r", b"^\r\n", b"&#xzz;", b"-bxor 300", b"%zz", b":99999", b"\\", b"`", b"\xff", b"MZ", b"PE\x00\x00", b",", b";", b"{", b"/c"]


def base_fragment():
    return st.one_of(
        frag_base64(),
        frag_hex(),
        frag_xml(),
        frag_chr(),
        frag_unescape(),
        frag_utf16(),
        frag_concat(),
        frag_reverse(),
        frag_replace(),
        frag_cmd(),
        frag_powershell(),
        frag_url(),
        frag_net(),
        frag_path(),
        frag_straddle(),
        frag_nested_kw(),
        frag_vba(),
        st.sampled_from(KEYWORDS),
        st.sampled_from(EDGE),
        st.binary(min_size=1, max_size=12),
        neutral(1, 3),
    )


def heavy_fragment():
    """expensive fragments, drawn rarely"""
    return st.one_of(frag_pe(), frag_psbytes())


def wrap(inner):
    """recursive wrapping: a fragment quoted / parenthesised / FOR-looped / encoded inside another"""
    return st.one_of(
        inner.map(lambda f: b"for /f %a in ('" + f + b"') do x"),
        st.tuples(st.sampled_from([b"'", b'"']), inner).map(lambda t: t[0] + t[1] + t[0]),
        inner.map(lambda f: b"(" + f + b")"),
        inner.map(lambda f: b64(f[:600])),
        st.tuples(inner, st.booleans()).map(lambda t: hexs(t[0][:400], t[1])),
        inner.map(lambda f: utf16(f[:400])),
        st.tuples(inner, st.integers(0, 3)).map(lambda t: xmlrefs(t[0][:60], t[1])),
        inner.map(lambda f: b"atob('" + b64(f[:600]) + b"')"),
        inner.map(lambda f: b"cmd /c " + f),
        inner.map(lambda f: b"CreateObject(" + f + b")"),
        st.tuples(inner, inner).map(lambda t: t[0] + b" " + t[1]),
    )


_CACHE: dict = {}


def cached(name, build):
    """strategies are built once per process: rebuilding the one_of tree on every draw dominates generation time"""
    if name not in _CACHE:
        _CACHE[name] = build()
    return _CACHE[name]


def fragment(max_leaves=4):
    return cached(("fragment", max_leaves), lambda: st.recursive(base_fragment(), wrap, max_leaves=max_leaves))


DOC_SEPS = [b" ", b"\n", b"; ", b"", b", ", b"\x00", b"\r\n"]


@st.composite
def documents(draw, max_frags=5, heavy=True, max_len=8192):
    n = draw(st.integers(1, max_frags))
    parts = []
    frags = []
    for _ in range(n):
        if frags and draw(st.integers(0, 5)) == 0:
            # exact repetition of an earlier fragment: second occurrences expose aliasing / memoisation slips
            f = frags[draw(st.integers(0, len(frags) - 1))]
        elif heavy and draw(st.integers(0, 24)) == 0:
            f = draw(cached("heavy", heavy_fragment))
        else:
            f = draw(fragment())
        frags.append(f)
        parts.append(f)
        parts.append(draw(st.sampled_from(DOC_SEPS)))
    return b"".join(parts)[:max_len]


# token soup (flat): edge tokens of every hand-written parser in random order
TOK = [
    b"cmd", b"cmd.exe", b'"cmd"', b"c^m^d", b"powershell", b"pwsh", b"p^owershell", b" -e ", b" /e ", b" -enc ", b"-encodedcommand ", b"^", b"\r", b"\n", b"\r\n",
    b'"', b"'", b"(", b")", b"'(", b"')", b"\x00", b" ", b"/c", b"&", b"&&", b"ZQBjAGgAbwAgAGIAZQBlAA==", b"AAAA", b"QUJD", b"=", b"-bxor ", b"-xor", b"300", b"65", b"999",
    b"FromBase64String('", b"FromHexString('", b"')", b"atob('", b'atob("', b"Base64Decode('", b"41424344454647484950", b"4a4b4c4d4e4f50515253", b"&#", b"&#x", b"zz;", b"41;",
    b"65;", b"255;", b"256;", b"chr(", b"chrw(", b"99999)", b"55296)", b"65)", b"unescape('", b"%41", b"%", b"%zz", b"http://", b"https://", b"ftp://", b"HtTp://",
    b"example.com", b"1.2.3.4", b"0x7f.1", b"[::1]", b"%5B::1%5D", b"@", b":", b":99999", b":80", b"/", b"/../", b"/./", b"?", b"#", b"%2F", b"%2e", b"\\\\", b"\\", b"C:\\",
    b"\\\\?\\", b"\\\\.\\", b"UNC\\", b"host.com\\", b"share\\", b"file.exe", b"file.dll", b"..\\", b".\\", b"foo", b"bar.txt", b"MZ", b"PE\x00\x00", b"\x00" * 4,
    b"\x3c\x00\x00\x00", b"a\x00b\x00c\x00d\x00e\x00f\x00g\x00h\x00", b"+", b"&amp;", b'"abc"', b"'def'", b".replace(", b"Replace(", b" -replace ", b",", b"reverse(",
    b"StrReverse(", b"createobject(", b"/abc/g", b"0x41,", b"12,", b"user@", b"mail@example.com", b"version=", b"_", b"<t>", b"sec. ", b"\xff", b"\x80", b"`", b'\\"', b"$",
    b"@SSL", b"@80", b"^\r\n", b"^\r",
]


def token_soup(max_tokens=14):
    return st.lists(st.one_of(st.sampled_from(TOK), st.sampled_from(TOK), st.sampled_from(TOK), st.binary(min_size=1, max_size=4)), min_size=1, max_size=max_tokens).map(b"".join)


# ---------------------------------------------------------------------------------------------
# directed family: contexts  >  decoded region  >  raw indicator inside the *encoded* text
# ---------------------------------------------------------------------------------------------
RAW_INDICATORS = [b"strlen", b"VirtualAlloc", b"1.2.3.4", b"evil.example.com", b"evil.exe", b"kernel32.dll", b"http://evil.example.com/a", b"mail@example.org", b"C:\\Users\\bob\\evil.dll"]
ALNUM_KEYWORDS = [b"strlen", b"VirtualAlloc", b"GetProcAddress", b"kernel32"]


def _b64_with_keyword(kw: bytes, pad: bytes) -> bytes:
    """base64 *text* (not an encoding of anything in particular) that contains kw delimited by + and /"""
    t = b"QUJDREVGR0g" + b"+" + kw + b"/" + pad + b"aGVsbG8gd29ybGQh"
    t += b"A" * (-len(t) % 4)
    return t


def decoded_wrappers(raw):
    """strategies producing an expression that some decoder decodes and whose encoded text contains `raw` literally"""
    return st.one_of(
        raw.map(lambda r: b'reverse("' + r + b'")'),
        raw.map(lambda r: b'StrReverse("' + r + b'")'),
        raw.map(lambda r: b'"' + r + b'" + "x"'),
        raw.map(lambda r: b"'" + r + b"zz'.replace('zz','')"),
        raw.map(lambda r: b"unescape('%41" + r.replace(b"'", b"") + b"')"),
        raw.map(lambda r: b"http://example.com/" + r.replace(b"\\", b"/").replace(b"://", b"/").replace(b":", b"") + b"/x"),
        st.tuples(st.sampled_from(ALNUM_KEYWORDS), word(0, 6, b"ABCDxyz019")).map(lambda t: _b64_with_keyword(t[0], t[1])),
        st.tuples(st.sampled_from(ALNUM_KEYWORDS), word(0, 6, b"ABCDxyz019")).map(lambda t: b"atob('" + _b64_with_keyword(t[0], t[1]) + b"')"),
    )


def context_wrap(inner, max_depth=3):
    one = st.one_of(
        inner.map(lambda x: b"CreateObject(" + x + b")"),
        inner.map(lambda x: b"cmd /c " + x + b"\x00"),
        inner.map(lambda x: b"createobject(foo, " + x + b" , bar)"),
        inner.map(lambda x: b"cmd.exe /k echo " + x + b"\x00"),
    )
    return st.recursive(inner, lambda s: st.one_of(s.map(lambda x: b"CreateObject(" + x + b")"), s.map(lambda x: b"cmd /c " + x + b"\x00"), s.map(lambda x: b"createobject(foo, " + x + b" , bar)")), max_leaves=max_depth)


@st.composite
def nested_docs(draw):
    raw = st.sampled_from(RAW_INDICATORS)
    core = cached("decoded_wrappers", lambda: decoded_wrappers(raw))
    body = draw(cached("context_wrap", lambda: context_wrap(st.tuples(core, st.sampled_from([b"", b" ", b" lorem "]), st.one_of(st.just(b""), core)).map(b"".join))))
    pre = draw(neutral(0, 3))
    suf = draw(neutral(0, 2))
    return (pre + b" " if pre else b"") + body + (b" " + suf if suf else b"")
