"""Runner: plans the units of one property check, shards them over worker processes, merges the results,
triages violations against known_findings.json, writes replay files and the evidence file.

usage: python -m vf.runner <Cxx> quick|thorough [--units a,b] [--workers N] [--scale F]
       python -m vf.runner <Cxx> --replay <file>
Exit: 0 property held on everything explored (known findings reported as KNOWN-FINDING lines);
      1 violation (line "VIOLATION property=<id> replay=<path>"); 2 harness error.
"""
from __future__ import annotations

import argparse
import importlib
import json
import os
import shutil
import subprocess
import sys
import time

from . import VERIF_DIR, REPO_DIR, codec, die_with_parent, triage
from .unit import Ctx, Outcome, Unit

MAX_ROUNDS = {"quick": 3, "thorough": 5}


def regress_dir(prop):
    return os.path.join(VERIF_DIR, "replays", prop, "regress")


def load_regress(prop):
    d = regress_dir(prop)
    out = []
    if os.path.isdir(d):
        for fn in sorted(os.listdir(d)):
            if fn.endswith(".json"):
                with open(os.path.join(d, fn)) as f:
                    out.append((fn, json.load(f)))
    return out


def find_unit(mod, tier, name):
    for u in mod.units(tier):
        if u.name == name:
            return u
    # a replay may name a unit that only exists in the other tier
    for t in ("thorough", "quick"):
        for u in mod.units(t):
            if u.name == name:
                return u
    raise KeyError(name)


def replay(prop, path):
    mod = importlib.import_module("vf.props." + prop.lower())
    with open(path) as f:
        rec = json.load(f)
    unit = find_unit(mod, "quick", rec["unit"])
    case = codec.dec(rec["case"])
    out = unit.check(case)
    known = triage.known_keys(prop)
    bad = [(k, d) for k, d in out.violations if k not in known]
    for k, d in out.violations:
        if k in known:
            print("KNOWN-FINDING: property=%s %s" % (prop, k))
    print("case:", json.dumps(codec.show(case))[:2000])
    if bad:
        for k, d in bad:
            print("violation key=%s detail=%s" % (k, json.dumps(codec.show(d, 400))[:1500]))
        print("VIOLATION property=%s replay=%s" % (prop, path))
        return 1
    print("replay passes: no violation for", path)
    return 0


class Pool:
    def __init__(self, nproc):
        self.nproc = nproc
        self.running = []  # (Popen, task, t0)
        self.finished = []

    def submit_all(self, tasks, scratch):
        queue = list(tasks)
        while queue or self.running:
            while queue and len(self.running) < self.nproc:
                task = queue.pop(0)
                tpath = os.path.join(scratch, "task-%s-%d-r%d.json" % (task["unit"], task["shard"], task["round"]))
                with open(tpath, "w") as f:
                    json.dump(task, f)
                env = dict(os.environ)
                env.setdefault("PYTHONHASHSEED", "0")
                log = open(tpath[:-5] + ".log", "wb")
                p = subprocess.Popen([sys.executable, "-m", "vf.worker", tpath], cwd=VERIF_DIR, env=env, stdout=log, stderr=subprocess.STDOUT, preexec_fn=die_with_parent)
                self.running.append((p, task, time.time(), log))
            still = []
            for p, task, t0, log in self.running:
                rc = p.poll()
                if rc is None:
                    hb = task["out"] + ".hb"
                    try:
                        stale = time.time() - os.path.getmtime(hb) > 300
                    except OSError:
                        stale = False
                    if stale:
                        p.kill()
                        p.wait()
                        log.close()
                        self.finished.append((task, "stalled"))
                        continue
                    if task.get("timeout_s") and time.time() - t0 > task["timeout_s"]:
                        p.kill()
                        p.wait()
                        log.close()
                        self.finished.append((task, "timeout"))
                    else:
                        still.append((p, task, t0, log))
                else:
                    log.close()
                    self.finished.append((task, rc))
            self.running = still
            if self.running:
                time.sleep(0.05)


def plan(prop, units, tier, seed, nworkers, scale, known, scratch, round_no, muted, only=None, qscale=1.0):
    tasks = []
    for u in units:
        if only and u.name not in only:
            continue
        if u.kind == "fixed":
            shards = 1
        else:
            shards = u.shards if u.shards is not None else nworkers
        # thorough budgets in the property modules are nominal; VERIF_THOROUGH_SCALE (default 0.5) keeps a full thorough
        # sweep of the 20 properties within a few hours on 16 cores (set it to 1 or more for a deeper run)
        tscale = float(os.environ.get("VERIF_THOROUGH_SCALE", "0.5")) if tier == "thorough" else qscale
        budget = max(1, int(u.budget * scale * tscale)) if u.scalable else u.budget
        per = max(1, budget // shards) if u.kind == "hyp" else budget
        for s in range(shards):
            tasks.append(
                {
                    "prop": prop,
                    "unit": u.name,
                    "tier": tier,
                    "shard": s,
                    "nshards": shards,
                    "seed": seed * 100003 + s * 101 + round_no * 7 + (abs(hash_name(u.name)) % 9973),
                    "budget": per,
                    "round": round_no,
                    "known_keys": sorted(known),
                    "muted": sorted(muted),
                    "max_shrink_s": u.max_shrink_s if tier == "thorough" else min(u.max_shrink_s, 40.0),
                    "timeout_s": u.timeout_s,
                    "out": os.path.join(scratch, "res-%s-%d-r%d.json" % (u.name, s, round_no)),
                }
            )
    return tasks


def hash_name(s):
    h = 0
    for ch in s:
        h = (h * 131 + ord(ch)) % 1000003
    return h


def main(argv=None):
    ap = argparse.ArgumentParser()
    ap.add_argument("prop")
    ap.add_argument("tier", nargs="?", default=os.environ.get("VERIF_TIER", "quick"))
    ap.add_argument("--replay")
    ap.add_argument("--units")
    ap.add_argument("--workers", type=int, default=int(os.environ.get("VERIF_WORKERS", "16")))
    ap.add_argument("--scale", type=float, default=float(os.environ.get("VERIF_SCALE", "1")))
    ap.add_argument("--no-evidence", action="store_true")
    args = ap.parse_args(argv)
    prop = args.prop.upper()
    if args.replay:
        return replay(prop, args.replay)
    tier = args.tier
    if tier not in ("quick", "thorough"):
        print("HARNESS-ERROR: tier must be quick or thorough")
        return 2
    seed = int(os.environ.get("VERIF_SEED", "1"))
    t0 = time.time()
    try:
        mod = importlib.import_module("vf.props." + prop.lower())
        units = mod.units(tier)
    except Exception as e:
        import traceback

        traceback.print_exc()
        print("HARNESS-ERROR: cannot load property module for %s: %r" % (prop, e))
        return 2
    known_entries = triage.known_for(prop)
    known = {e["key"] for e in known_entries}
    scratch = os.path.join(VERIF_DIR, ".scratch", "%s-%s-%d" % (prop, tier, os.getpid()))
    shutil.rmtree(scratch, ignore_errors=True)
    os.makedirs(scratch)
    only = set(args.units.split(",")) if args.units else None

    merged = {
        "evaluations": 0,
        "nontrivial_count": 0,
        "nt_hashes": set(),
        "labels": {},
        "excluded": {},
        "samples": [],
        "kf": {},
        "viol": {},
        "errors": [],
        "units": {},
        "notes": {},
    }
    muted: set[str] = set()
    rounds = 0
    try:
        while True:
            # the budgets in the property modules were set on a machine that was (unknowingly) half busy; on 16 free cores the
            # quick tier has room for twice as many generated cases per property within about a minute (QUICK_SCALE)
            tasks = plan(prop, units, tier, seed, args.workers, args.scale, known, scratch, rounds, muted, only, float(getattr(mod, "QUICK_SCALE", 2.0)))
            if rounds == 0 and not only and load_regress(prop):
                tasks.insert(0, dict(tasks[0] if tasks else {}, prop=prop, unit="__regress__", tier=tier, shard=0, nshards=1, seed=seed, budget=0,
                                     round=0, known_keys=sorted(known), muted=[], timeout_s=None,
                                     out=os.path.join(scratch, "res-__regress__-0-r0.json")))
            if rounds > 0:
                # later rounds only re-run hypothesis units (they stop at the first unknown root cause)
                tasks = [t for t in tasks if t["unit"] in rerun_units and _unit(units, t["unit"]).kind == "hyp"]
            if not tasks:
                break
            pool = Pool(args.workers)
            pool.submit_all(tasks, scratch)
            new_keys = set()
            rerun_units = set()
            for task, rc in pool.finished:
                res = None
                if os.path.exists(task["out"]):
                    with open(task["out"]) as f:
                        res = json.load(f)
                if res is None:
                    logp = os.path.join(scratch, "task-%s-%d-r%d.log" % (task["unit"], task["shard"], task["round"]))
                    tail = ""
                    if os.path.exists(logp):
                        with open(logp, "rb") as f:
                            tail = f.read()[-1500:].decode("utf-8", "replace")
                    merged["errors"].append("worker %s/%d produced no result (rc=%s): %s" % (task["unit"], task["shard"], rc, tail))
                    continue
                if rc == "timeout":
                    merged["errors"].append("worker %s/%d timed out" % (task["unit"], task["shard"]))
                if rc == "stalled":
                    merged["errors"].append("worker %s/%d stalled (no heartbeat: interpreter blocked) and was killed" % (task["unit"], task["shard"]))
                if res.get("stuck"):
                    _handle_stuck(prop, mod, task, res)
                _merge(merged, res, task)
                for k in res["viol"]:
                    if k not in muted:
                        new_keys.add(k)
                        rerun_units.add(task["unit"])
            rounds += 1
            if not new_keys or rounds >= MAX_ROUNDS[tier]:
                break
            muted |= new_keys
    finally:
        pass

    # ---- report -----------------------------------------------------------------------------
    rc = 0
    lines = []
    for e in known_entries:
        hit = merged["kf"].get(e["key"])
        n = hit["count"] if hit else 0
        lines.append("KNOWN-FINDING: property=%s %s [key=%s; seen %d times in this run]" % (prop, e["what_fails"], e["key"], n))
    viol_paths = []
    if merged["viol"]:
        rbase = os.path.join(".scratch", "replays") if args.no_evidence else "replays"
        rdir = os.path.join(VERIF_DIR, rbase, prop)
        os.makedirs(rdir, exist_ok=True)
        for key, e in sorted(merged["viol"].items()):
            rec = {"property": prop, "unit": e["unit"], "key": key, "case": e["case"], "detail": e["detail"], "seed": seed, "tier": tier}
            if e.get("regress_file"):
                path = os.path.join("replays", prop, "regress", e["regress_file"])
            else:
                path = os.path.join(rbase, prop, "%s-%s.json" % (triage.slug(key), codec.digest(e["case"])[:8]))
                with open(os.path.join(VERIF_DIR, path), "w") as f:
                    json.dump(rec, f, indent=1)
            viol_paths.append(path)
            lines.append("violation key=%s count=%d unit=%s detail=%s" % (key, e["count"], e["unit"], json.dumps(e["detail"])[:600]))
            lines.append("VIOLATION property=%s replay=%s" % (prop, path))
        rc = 1
    if merged["errors"]:
        for er in merged["errors"][:5]:
            lines.append("HARNESS-ERROR: " + er.replace("\n", "\n    "))
        if rc == 0:
            rc = 2

    distinct_nt = len(merged["nt_hashes"]) + merged["nontrivial_count"]
    wall = round(time.time() - t0, 2)
    evidence = {
        "property_id": prop,
        "tier": tier,
        "seed": seed,
        "level": "exploration",
        "coverage": {
            "evaluations": merged["evaluations"],
            "distinct_nontrivial": distinct_nt,
            "rule": getattr(mod, "RULE", ""),
            "samples": merged["samples"][:10],
            "exhaustive": bool(getattr(mod, "EXHAUSTIVE", {}).get(tier, False)),
            "exhaustive_scope": getattr(mod, "EXHAUSTIVE_SCOPE", {}).get(tier, ""),
            "units": merged["units"],
            "classes": dict(sorted(merged["labels"].items())),
            "excluded_by_construction": dict(sorted(merged["excluded"].items())),
            "known_finding_hits": {k: v["count"] for k, v in merged["kf"].items()},
            "violation_keys": sorted(merged["viol"]),
            "rounds": rounds,
            "workers": args.workers,
            "repo": REPO_DIR,
            "notes": merged["notes"],
        },
        "assumptions": list(getattr(mod, "ASSUMPTIONS", [])),
        "wall_s": wall,
        "violations": len(merged["viol"]),
    }
    if not evidence["coverage"]["exhaustive"]:
        evidence["coverage"].pop("exhaustive_scope")
    if not args.no_evidence and not only:
        os.makedirs(os.path.join(VERIF_DIR, "evidence"), exist_ok=True)
        with open(os.path.join(VERIF_DIR, "evidence", prop + ".json"), "w") as f:
            json.dump(evidence, f, indent=1, sort_keys=True)
    for ln in lines:
        print(ln)
    print(
        "%s %s seed=%d: %d evaluations, %d distinct non-trivial, %d known-finding hits, %d violation keys, %.1fs"
        % (prop, tier, seed, merged["evaluations"], distinct_nt, sum(v["count"] for v in merged["kf"].values()), len(merged["viol"]), wall)
    )
    shutil.rmtree(scratch, ignore_errors=True)
    return rc


def _handle_stuck(prop, mod, task, res):
    """a worker ended itself because one case did not return for stuck_s seconds (stuck in C code). The property module
    decides what that means (C01: CPU-budget verdict -> violation); for every other property it is a counted exclusion."""
    case = codec.dec(res["stuck"]["case"])
    handler = getattr(mod, "on_stuck", None)
    verdict = handler(case, task["unit"]) if handler else None
    if verdict is None:
        res["excluded"]["case did not return within the watchdog time (totality is C01's business)"] = res["excluded"].get("case did not return within the watchdog time (totality is C01's business)", 0) + 1
        return
    key, detail = verdict
    if key in set(task.get("known_keys", [])):
        table = res["kf"]
    else:
        table = res["viol"]
    e = table.get(key)
    if e is None:
        table[key] = {"count": 1, "case": res["stuck"]["case"], "detail": codec.show(detail, 400), "size": codec.size(case)}
    else:
        e["count"] += 1


def _unit(units, name):
    for u in units:
        if u.name == name:
            return u
    raise KeyError(name)


def _merge(m, res, task):
    m["evaluations"] += res["evaluations"]
    m["nontrivial_count"] += res["nontrivial_count"]
    m["nt_hashes"].update(res["nt_hashes"])
    for k, v in res["labels"].items():
        m["labels"][k] = m["labels"].get(k, 0) + v
    for k, v in res["excluded"].items():
        m["excluded"][k] = m["excluded"].get(k, 0) + v
    u = m["units"].setdefault(task["unit"], {"evaluations": 0, "nontrivial": 0, "wall_s_max": 0.0, "shards": 0})
    u["evaluations"] += res["evaluations"]
    u["nontrivial"] += res["nontrivial_count"] + len(res["nt_hashes"])
    u["wall_s_max"] = max(u["wall_s_max"], res["wall_s"])
    u["shards"] += 1
    if len(m["samples"]) < 10:
        have = {json.dumps(s, sort_keys=True) for s in m["samples"]}
        take = 2 if len(m["units"]) > 1 else 4
        for s in res["samples"][-take:]:
            if json.dumps(s, sort_keys=True) not in have and len(m["samples"]) < 10:
                m["samples"].append(s)
    for table in ("kf", "viol"):
        for k, e in res[table].items():
            cur = m[table].get(k)
            e = dict(e)
            e.setdefault("unit", task["unit"])
            if cur is None:
                m[table][k] = e
            else:
                cur["count"] += e["count"]
                if e["size"] < cur["size"]:
                    cnt = cur["count"]
                    cur.update(e)
                    cur["count"] = cnt
    for er in res["errors"]:
        m["errors"].append("%s/%d: %s" % (task["unit"], task["shard"], er))
    for k, v in res.get("notes", {}).items():
        if isinstance(v, (int, float)) and not isinstance(v, bool):
            m["notes"][task["unit"] + "." + k] = m["notes"].get(task["unit"] + "." + k, 0) + v
        else:
            m["notes"].setdefault(task["unit"] + "." + k, v)


if __name__ == "__main__":
    sys.exit(main())
