"""Deterministic non-termination verdict: run one scan under sys.monitoring, counting LINE events that occur in
multidecoder / pefile code objects; stop when the budget is exceeded and report the innermost multidecoder frame.

usage: python -m vf.hangcheck <input file> <depth|none> <budget> <views 0|1>
prints one JSON line.
"""
import json
import sys

import vf  # noqa: F401  (puts the repository on sys.path)


class Budget(BaseException):
    pass


def main():
    path, depth, budget, views = sys.argv[1], sys.argv[2], int(sys.argv[3]), sys.argv[4] == "1"
    data = open(path, "rb").read()
    sys.setrecursionlimit(1000)
    import resource

    try:
        resource.setrlimit(resource.RLIMIT_AS, (2 << 30, 2 << 30))
    except Exception:
        pass
    from multidecoder.json_conversion import tree_to_json
    from multidecoder.multidecoder import Multidecoder
    from multidecoder.query import string_summary

    md = Multidecoder()
    mon = sys.monitoring
    TOOL = mon.DEBUGGER_ID
    mon.use_tool_id(TOOL, "vf-hang")
    count = [0]
    where = [""]

    def on_line(code, line):
        fn = code.co_filename
        if "/multidecoder/" in fn or "pefile" in fn:
            count[0] += 1
            if count[0] > budget:
                where[0] = "%s:%s:%d" % (fn.rsplit("/", 1)[-1], code.co_name, line)
                raise Budget()
            return None
        return mon.DISABLE

    mon.register_callback(TOOL, mon.events.LINE, on_line)
    mon.set_events(TOOL, mon.events.LINE)
    res = {"verdict": "terminates", "events": 0, "where": ""}
    try:
        t = md.scan(data) if depth == "none" else md.scan(data, int(depth))
        if views:
            t.flatten()
            list(t)
            string_summary(t)
            tree_to_json(t)
    except Budget:
        # innermost multidecoder frame
        import traceback

        tb = traceback.extract_tb(sys.exc_info()[2])
        inner = [f for f in tb if "/multidecoder/" in f.filename]
        if inner:
            f = inner[-1]
            where[0] = "%s:%s" % (f.filename.rsplit("/", 1)[-1], f.name)
        res = {"verdict": "budget", "where": where[0]}
    except RecursionError:
        res = {"verdict": "terminates", "note": "RecursionError"}
    except MemoryError:
        import traceback

        tb = traceback.extract_tb(sys.exc_info()[2])
        inner = [f for f in tb if "/multidecoder/" in f.filename]
        res = {"verdict": "memory", "where": ("%s:%s" % (inner[-1].filename.rsplit("/", 1)[-1], inner[-1].name)) if inner else ""}
    except BaseException as e:  # any other exception terminates the scan: not a hang
        res = {"verdict": "terminates", "note": type(e).__name__}
    finally:
        mon.set_events(TOOL, 0)
        mon.free_tool_id(TOOL)
    res["events"] = count[0]
    print(json.dumps(res))


if __name__ == "__main__":
    main()
