"""JSON-safe encoding of cases (bytes <-> hex) so that a shrunk failure becomes a replay file."""
from __future__ import annotations

import hashlib
import json


def enc(o):
    if isinstance(o, (bytes, bytearray)):
        return {"$b": bytes(o).hex()}
    if isinstance(o, (list, tuple)):
        return [enc(x) for x in o]
    if isinstance(o, dict):
        return {str(k): enc(v) for k, v in o.items()}
    if isinstance(o, (set, frozenset)):
        return [enc(x) for x in sorted(o)]
    if o is None or isinstance(o, (bool, int, float, str)):
        return o
    return repr(o)


def dec(o):
    if isinstance(o, dict):
        if set(o) == {"$b"}:
            return bytes.fromhex(o["$b"])
        return {k: dec(v) for k, v in o.items()}
    if isinstance(o, list):
        return [dec(x) for x in o]
    return o


def dumps(o) -> str:
    return json.dumps(enc(o), sort_keys=True, ensure_ascii=True)


def digest(o) -> str:
    return hashlib.sha1(dumps(o).encode()).hexdigest()[:16]


def size(o) -> int:
    return len(dumps(o))


def show(o, limit=160):
    """Human-readable rendering for evidence samples: bytes as escaped text, truncated."""
    if isinstance(o, (bytes, bytearray)):
        r = repr(bytes(o))[2:-1]
        if len(r) > limit:
            r = r[:limit] + "...(+%d bytes)" % (len(o),)
        return r
    if isinstance(o, (list, tuple)):
        out = [show(x, limit) for x in o[:12]]
        if len(o) > 12:
            out.append("...(%d items)" % len(o))
        return out
    if isinstance(o, dict):
        return {str(k): show(v, limit) for k, v in o.items()}
    if o is None or isinstance(o, (bool, int, float, str)):
        return o
    return repr(o)
