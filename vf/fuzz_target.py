"""Coverage-guided fuzz targets (atheris / libFuzzer) for C01. Run as a script in its own process:

    python -m vf.fuzz_target <pe|scan> <out_dir> <corpus_dir> [libFuzzer options...]

The semantic oracle is inside the target: no exception may escape, reported spans must lie inside the data, and the
read-only views must complete. Exceptions are bucketed by root cause; the first input of every bucket is saved to
<out_dir>/<key>.bin and the campaign continues (a libFuzzer crash would end it at the first shallow defect).
"""
import os
import sys

import vf  # noqa: F401  (repository on sys.path)


def main():
    which, out_dir, corpus = sys.argv[1], sys.argv[2], sys.argv[3]
    os.makedirs(out_dir, exist_ok=True)
    import atheris

    with atheris.instrument_imports(include=["multidecoder", "pefile"]):
        import pefile  # noqa: F401
        from multidecoder.decoders.pe_file import find_pe_files
        from multidecoder.json_conversion import tree_to_json
        from multidecoder.multidecoder import Multidecoder
        from multidecoder.query import string_summary
        from multidecoder.registry import get_analyzers

    from vf.triage import exc_key, slug

    seen = {}
    md = Multidecoder(get_analyzers())
    sys.setrecursionlimit(1000)

    def save(key, data):
        if key not in seen:
            seen[key] = True
            with open(os.path.join(out_dir, slug(key) + ".bin"), "wb") as f:
                f.write(data)
            with open(os.path.join(out_dir, slug(key) + ".key"), "w") as f:
                f.write(key)

    def target_pe(data):
        try:
            hits = find_pe_files(data)
        except Exception as e:
            save(exc_key(e), data)
            return
        for h in hits:
            if not (0 <= h.start <= h.end <= len(data)):
                save("pe:span-out-of-bounds", data)

    def target_scan(data):
        if len(data) > 4096:
            return
        try:
            t = md.scan(data)
        except RecursionError:
            return
        except Exception as e:
            save(exc_key(e), data)
            return
        try:
            t.flatten()
            list(t)
            string_summary(t)
            tree_to_json(t)
        except RecursionError:
            return  # known finding K5 (deep nesting) - demonstrated deterministically elsewhere
        except Exception as e:
            save("view:" + exc_key(e), data)

    target = {"pe": target_pe, "scan": target_scan}[which]
    atheris.Setup([sys.argv[0], corpus] + sys.argv[4:], target)
    atheris.Fuzz()


if __name__ == "__main__":
    main()
