"""Known findings: committed list of genuine defects that are recorded rather than repaired.

The file is never written at run time. A `known` entry turns violations with exactly that root-cause key into
KNOWN-FINDING lines; a `fixed` entry suppresses nothing (it is documentation of a repaired defect).
"""
from __future__ import annotations

import json
import os
import re

from . import VERIF_DIR

KF_PATH = os.path.join(VERIF_DIR, "known_findings.json")


def load():
    if not os.path.exists(KF_PATH):
        return {"known": [], "fixed": []}
    with open(KF_PATH) as f:
        return json.load(f)


def known_for(prop: str) -> list[dict]:
    return [e for e in load().get("known", []) if e["property"] == prop]


def known_keys(prop: str) -> set[str]:
    return {e["key"] for e in known_for(prop)}


def slug(key: str) -> str:
    return re.sub(r"[^A-Za-z0-9_.-]+", "_", key)[:80]


# ---------------------------------------------------------------------------------------------
# Helpers to build root-cause keys from exceptions (type + innermost frame inside the package)
# ---------------------------------------------------------------------------------------------
def exc_key(exc: BaseException, packages=("multidecoder", "pefile")) -> str:
    import traceback

    tb = traceback.extract_tb(exc.__traceback__)
    inner = None
    for fr in tb:
        fn = fr.filename.replace("\\", "/")
        if any("/" + p + "/" in fn or fn.endswith("/" + p + ".py") for p in packages):
            inner = fr
    # innermost multidecoder frame (not pefile) names the call site responsible
    md_inner = None
    for fr in tb:
        fn = fr.filename.replace("\\", "/")
        if "/multidecoder/" in fn:
            md_inner = fr
    fr = md_inner or inner or (tb[-1] if tb else None)
    if fr is None:
        return type(exc).__name__
    return "%s@%s:%s" % (type(exc).__name__, os.path.basename(fr.filename), fr.name)
