"""Observation helpers: recording registry wrapper, tree walkers, alarm guard and the event-budget hang verdict."""
from __future__ import annotations

import json
import os
import signal
import subprocess
import sys
import tempfile

from . import VERIF_DIR, REPO_SRC, die_with_parent


# ---------------------------------------------------------------------------------------------
# recording registry
# ---------------------------------------------------------------------------------------------
class HitRec:
    __slots__ = ("node", "text", "start", "end", "source", "supplied", "call", "value", "type", "spec")

    def __init__(self, node, text, source, call, spec=None):
        self.node = node
        self.spec = spec
        self.text = text
        self.start = node.start
        self.end = node.end
        self.value = node.value
        self.type = node.type
        self.source = source
        self.supplied = [c for c in node]  # decoder-supplied descendants (strong refs keep ids unique)
        self.call = call


def source_name(f) -> str:
    n = getattr(f, "__name__", None)
    if n:
        return n
    args = getattr(f, "args", None)  # functools.partial(find_keywords, file_name, keywords)
    if args:
        return "keywords:" + str(args[0])
    return repr(f)


class Recorder:
    """Multidecoder whose registry records, for every call, the text searched and the hits as returned
    (before the engine shifts / re-parents them)."""

    def __init__(self, registry=None, keep_specs=False):
        from multidecoder.multidecoder import Multidecoder

        self.keep_specs = keep_specs
        from multidecoder.registry import build_registry

        base = registry if registry is not None else build_registry()
        self.base = list(base)
        self.hits: list[HitRec] = []
        self.calls: list[tuple[bytes, str]] = []
        self.texts: list[bytes] = []  # distinct text objects searched, in order of first search
        self._text_ids: set[int] = set()
        self.md = Multidecoder([self._wrap(f) for f in self.base])

    def _wrap(self, f):
        name = source_name(f)

        def g(data):
            if id(data) not in self._text_ids:
                self._text_ids.add(id(data))
                self.texts.append(data)
            out = f(data)
            call = len(self.calls)
            self.calls.append((data, name))
            if self.keep_specs:
                from .engine import H

                for n in out:
                    self.hits.append(HitRec(n, data, name, call, H.from_node(n)))
            else:
                for n in out:
                    self.hits.append(HitRec(n, data, name, call))
            return out

        g.__name__ = name
        return g

    def reset(self):
        self.hits.clear()
        self.calls.clear()
        self.texts.clear()
        self._text_ids.clear()

    def scan(self, data: bytes, depth_limit=None):
        self.reset()
        if depth_limit is None:
            return self.md.scan(data)
        return self.md.scan(data, depth_limit)

    # classification -------------------------------------------------------------------------
    def supplied_ids(self) -> set[int]:
        s = set()
        for h in self.hits:
            for c in h.supplied:
                s.add(id(c))
        return s

    def hit_ids(self) -> dict[int, HitRec]:
        return {id(h.node): h for h in self.hits}


# ---------------------------------------------------------------------------------------------
# tree helpers
# ---------------------------------------------------------------------------------------------
def freeze(n):
    return (n.type, n.value, n.obfuscation, n.start, n.end, tuple(freeze(c) for c in n.children))


def walk_iter(root):
    """explicit-stack pre-order walk, by identity; yields (node, parent, depth)"""
    stack = [(c, root, 1) for c in reversed(root.children)]
    while stack:
        n, p, d = stack.pop()
        yield n, p, d
        for c in reversed(n.children):
            stack.append((c, n, d + 1))


def tree_height(root) -> int:
    h = 0
    for _, _, d in walk_iter(root):
        if d > h:
            h = d
    return h


def is_decoded(node) -> bool:
    """The engine's own classification of a hit (multidecoder.py:63): value differs from the covered text, ignoring case."""
    return node.value.lower() != node.original.lower()


def abs_nodes(root):
    """(absolute start, absolute end, node) for every node reachable from the root through undecoded contexts only."""
    out = []
    stack = [(c, 0) for c in reversed(root.children)]
    while stack:
        n, off = stack.pop()
        a = off + n.start
        out.append((a, a + (n.end - n.start), n))
        p = n.parent
        if p is not None and n.value.lower() == p.value[n.start : n.end].lower():
            for c in reversed(n.children):
                stack.append((c, a))
    return out


# ---------------------------------------------------------------------------------------------
# alarm guard
# ---------------------------------------------------------------------------------------------
class CaseTimeout(BaseException):
    pass


def _on_alarm(signum, frame):
    raise CaseTimeout()


def guarded(seconds: float, fn, *args, **kw):
    """Run fn under a wall-clock alarm. A CaseTimeout is *not* a verdict - see hang_verdict()."""
    old = signal.signal(signal.SIGALRM, _on_alarm)
    signal.setitimer(signal.ITIMER_REAL, seconds)
    try:
        return fn(*args, **kw)
    finally:
        signal.setitimer(signal.ITIMER_REAL, 0)
        signal.signal(signal.SIGALRM, old)


IN_CONFIRM = [0]  # > 0 while the main thread waits for a confirmation subprocess (the worker's watchdog must not fire then)


def hang_verdict(data: bytes, depth_limit: int | None, budget_events: int = 200_000_000, hard_cap_s: int = 300, views: bool = True):
    """Re-execute scan(data, depth_limit) in a fresh interpreter counting line events inside multidecoder / pefile
    code (sys.monitoring). Deterministic for a deterministic scan.
    Returns dict(verdict="terminates"|"budget"|"cap"|"error", events=int, where=str, error=str)."""
    d = tempfile.mkdtemp(prefix="vf-hang-", dir=os.path.join(VERIF_DIR, ".scratch") if os.path.isdir(os.path.join(VERIF_DIR, ".scratch")) else None)
    inp = os.path.join(d, "in.bin")
    with open(inp, "wb") as f:
        f.write(data)
    env = dict(os.environ)
    IN_CONFIRM[0] += 1
    try:
        p = subprocess.run(
            [sys.executable, "-m", "vf.hangcheck", inp, "none" if depth_limit is None else str(depth_limit), str(budget_events), "1" if views else "0"],
            cwd=VERIF_DIR,
            env=env,
            capture_output=True,
            text=True,
            timeout=hard_cap_s,
            preexec_fn=die_with_parent,
        )
        line = (p.stdout.strip().splitlines() or ["{}"])[-1]
        try:
            res = json.loads(line)
        except Exception:
            res = {"verdict": "error", "error": (p.stdout + p.stderr)[-500:]}
        return res
    except subprocess.TimeoutExpired:
        return {"verdict": "cap", "events": -1, "where": "hard cap %ds" % hard_cap_s}
    finally:
        IN_CONFIRM[0] -= 1
        import shutil

        shutil.rmtree(d, ignore_errors=True)


# ---------------------------------------------------------------------------------------------
# converse checks: "this blob at [a,b) must be reported as one node"
# ---------------------------------------------------------------------------------------------
def locate(root, a, b, typ=None, obf=None, value=None):
    """look for a node with absolute span [a,b) (through undecoded contexts) and the given fields.
    Returns ("found", node) | ("shadowed", description) | ("missing", nodes overlapping the span)"""
    nodes = abs_nodes(root)
    same_span = [n for (s, e, n) in nodes if (s, e) == (a, b)]
    for n in same_span:
        if (typ is None or n.type == typ) and (obf is None or n.obfuscation == obf) and (value is None or n.value == value):
            return "found", n
    for s, e, n in nodes:
        if s <= a and b <= e and (s, e) != (a, b) and n.value.lower() != n.original.lower():
            if typ is not None and obf is not None and n.type == typ and n.obfuscation == obf:
                continue  # the expected decoder's own result with a wrong span is not "another result shadowing it"
            return "shadowed", (n.type, n.obfuscation, s, e)
    over = [(n.type, n.obfuscation, s, e, n.value[:40]) for (s, e, n) in nodes if s < b and a < e]
    return "missing", over[:8]


def cpu_budget_verdict(data: bytes, depth_limit, cpu_s: int = 200):
    """verdict for a case that does not return and produces no line events (stuck in C code, e.g. regex backtracking):
    re-run it in a fresh interpreter with a CPU-time limit (CPU seconds consumed, not wall-clock, so machine load does not
    matter; a normal scan of such an input takes milliseconds). Returns dict(verdict, where)."""
    import re as _re
    import shutil

    base = os.path.join(VERIF_DIR, ".scratch")
    os.makedirs(base, exist_ok=True)
    d = tempfile.mkdtemp(prefix="vf-cpu-", dir=base)
    inp = os.path.join(d, "in.bin")
    with open(inp, "wb") as f:
        f.write(data)
    IN_CONFIRM[0] += 1
    try:
        p = subprocess.run([sys.executable, "-m", "vf.cpucheck", inp, "none" if depth_limit is None else str(depth_limit), str(cpu_s)], cwd=VERIF_DIR, capture_output=True, text=True, timeout=cpu_s * 20 + 600, preexec_fn=die_with_parent)
        line = (p.stdout.strip().splitlines() or [""])[-1]
        if p.returncode == 0 and line.startswith("{"):
            return json.loads(line)
        frames = _re.findall(r'File "([^"]+)", line \d+ in (\S+)', p.stderr)
        where = "?"
        for fn, func in frames:
            if "/multidecoder/" in fn:
                where = "%s:%s" % (fn.rsplit("/", 1)[-1], func)
                break
        return {"verdict": "cpu-budget", "where": where, "cpu_s": cpu_s, "rc": p.returncode}
    except subprocess.TimeoutExpired:
        return {"verdict": "inconclusive", "where": "?"}
    finally:
        IN_CONFIRM[0] -= 1
        shutil.rmtree(d, ignore_errors=True)
