"""Validity predicates over recorded scans, written from the statements of C03, C04 and C05."""
from __future__ import annotations

from .observe import Recorder, walk_iter


class Analysis:
    def __init__(self, rec: Recorder, root, data: bytes):
        self.rec = rec
        self.root = root
        self.data = data
        self.nodes = list(walk_iter(root))  # (node, parent-as-walked, depth) by identity
        self.tree_ids = {}
        for n, p, d in self.nodes:
            self.tree_ids.setdefault(id(n), []).append(p)
        self.hit_by_id = {id(h.node): h for h in rec.hits}
        self.supplied_by = {}  # id(supplied descendant) -> HitRec of the hit that carried it
        for h in rec.hits:
            for c in h.supplied:
                self.supplied_by[id(c)] = h

    def source_of(self, node) -> str:
        h = self.hit_by_id.get(id(node))
        if h is not None:
            return h.source
        h = self.supplied_by.get(id(node))
        if h is not None:
            return "supplied:" + h.source
        return "?"

    def origin_of(self, node) -> str:
        if id(node) in self.supplied_by:
            return "decoder-supplied"
        if id(node) in self.hit_by_id:
            return "engine-attached"
        return "unknown-origin"

    def engine_attached(self, node) -> bool:
        return id(node) in self.hit_by_id and id(node) not in self.supplied_by


def decoded_rec(h) -> bool:
    """the engine's classification at attach time: value differs from the covered text (ignoring case) or children supplied"""
    return h.value.lower() != h.text[h.start : h.end].lower() or bool(h.supplied)


# ---------------------------------------------------------------------------------------------
# C03
# ---------------------------------------------------------------------------------------------
def c03(an: Analysis):
    v = []
    root, data = an.root, an.data
    if not (root.type == "" and root.value == data and root.obfuscation == "" and root.start == 0 and root.end == len(data) and root.parent is None):
        v.append(("root", {"type": root.type, "obf": root.obfuscation, "start": root.start, "end": root.end, "len": len(data), "parent": root.parent is not None, "value_equal": root.value == data}))
    seen = set()
    for n, p, d in an.nodes:
        if id(n) in seen:
            v.append(("duplicate-node:" + an.origin_of(n), {"type": n.type, "source": an.source_of(n)}))
            continue
        seen.add(id(n))
        if id(n) == id(root):
            v.append(("root-reachable-as-child", {}))
        if n.parent is not p:
            v.append(("parent-pointer:" + an.origin_of(n), {"type": n.type, "source": an.source_of(n), "parent_type": p.type, "has": None if n.parent is None else n.parent.type}))
        if not isinstance(n.start, int) or not isinstance(n.end, int):
            v.append(("span-not-int:" + an.source_of(n), {}))
            continue
        if not (0 <= n.start <= n.end <= len(p.value)):
            if n.start < 0:
                kind = "start<0"
            elif n.end < n.start:
                kind = "end<start"
            else:
                kind = "end>len(parent)"
            src = an.source_of(n)
            if src.split(":")[-1] in ("<lambda>", "?") or src.startswith("keywords:") or src.startswith("supplied:keywords:"):
                key = "span:%s:%s" % (an.origin_of(n), kind)  # synthetic registries / keyword searchers: one key per origin
            else:
                key = "span:%s:%s:%s" % (src, n.type, kind)
            h = an.hit_by_id.get(id(n))
            if h is not None and h.source == "find_powershell_strings" and h.end == len(h.text) - h.start and h.start > 0:
                key += ":end=len(text)-start"
            v.append((key, {"type": n.type, "obf": n.obfuscation, "start": n.start, "end": n.end, "parent_len": len(p.value), "parent_type": p.type}))
    # iteration order: list(root) must be the explicit-stack pre-order walk, by identity
    try:
        it = list(root)
    except RecursionError:
        it = None
    if it is not None:
        mine = [n for n, _, _ in an.nodes]
        if len(it) != len(mine) or any(a is not b for a, b in zip(it, mine)):
            v.append(("iteration-order", {"len_iter": len(it), "len_walk": len(mine)}))
    return v


# ---------------------------------------------------------------------------------------------
# C04
# ---------------------------------------------------------------------------------------------
def c04(an: Analysis):
    """returns (violations, stats)"""
    v = []
    stats = {"kept": 0, "nested": 0, "nested2": 0, "decoded_in_context": 0, "oob_skipped": 0}
    for h in an.rec.hits:
        n = h.node
        if id(n) not in an.tree_ids or id(n) in an.supplied_by:
            continue
        if not (0 <= h.start <= h.end <= len(h.text)):
            stats["oob_skipped"] += 1
            continue
        stats["kept"] += 1
        # walk up to the node whose value is the searched text
        a = n.start
        p = n.parent
        depth = 0
        while p is not None and p.value is not h.text:
            a += p.start
            p = p.parent
            depth += 1
            if depth > 100000:
                break
        if p is None:
            v.append(("no-anchor", {"type": n.type, "source": h.source}))
            continue
        if depth >= 1 and a != n.start:
            stats["nested"] += 1
            if depth >= 2:
                stats["nested2"] += 1
            if decoded_rec(h):
                stats["decoded_in_context"] += 1
        if a != h.start:
            v.append(("moved", {"source": h.source, "type": n.type, "recorded_start": h.start, "sum_of_starts": a, "context_depth": depth}))
        elif n.end - n.start != h.end - h.start:
            v.append(("resized", {"source": h.source, "type": n.type, "recorded": [h.start, h.end], "node": [n.start, n.end]}))
        elif n.original.lower() != h.text[h.start : h.end].lower():
            v.append(("re-aimed", {"source": h.source, "type": n.type, "original": n.original, "text_slice": h.text[h.start : h.end]}))
    return v, stats


# ---------------------------------------------------------------------------------------------
# C05
# ---------------------------------------------------------------------------------------------
def c05(an: Analysis):
    v = []
    stats = {"lists>=2": 0, "nested_or_suppressed": 0, "in_context_offset>0": 0, "tainted_pairs_skipped": 0, "suppressed": 0, "selfmatch": 0}

    def tainted(n):
        h = an.hit_by_id.get(id(n))
        return h is not None and not (0 <= h.start <= h.end <= len(h.text))

    # (i) + (ii) on every child list, restricted to engine-attached children
    parents = [an.root] + [n for n, _, _ in an.nodes]
    for p in parents:
        eng = [c for c in p.children if an.engine_attached(c)]
        if len(eng) >= 2:
            stats["lists>=2"] += 1
            if p is not an.root and p.start > 0 and an.engine_attached(p):
                stats["in_context_offset>0"] += 1
        for a, b in zip(eng, eng[1:]):
            if tainted(a) or tainted(b):
                stats["tainted_pairs_skipped"] += 1
                continue
            if not (a.start <= b.start):
                v.append(("order:start-decreasing", {"a": [a.type, a.start, a.end], "b": [b.type, b.start, b.end], "parent": p.type}))
            elif not (a.end < b.end):
                v.append(("order:end-not-increasing", {"a": [a.type, a.obfuscation, a.start, a.end], "b": [b.type, b.obfuscation, b.start, b.end], "parent": p.type, "a_decoded": a.value.lower() != a.original.lower()}))
        for i, a in enumerate(eng):
            if tainted(a):
                continue
            for b in eng[i + 1 :]:
                if tainted(b):
                    continue
                if (a.start <= b.start and b.end <= a.end) or (b.start <= a.start and a.end <= b.end):
                    v.append(("laminar:sibling-inside-sibling", {"a": [a.type, a.obfuscation, a.start, a.end], "b": [b.type, b.obfuscation, b.start, b.end], "parent": p.type}))
                    break
    # (iii) accounting for every recorded hit, grouped by searched text object
    # one scan_node invocation = one block of len(registry) consecutive decoder calls on the same value
    nreg = max(1, len(an.rec.base))
    groups = {}
    for h in an.rec.hits:
        groups.setdefault(h.call // nreg, []).append(h)
    owners = {}
    for n in [an.root] + [n for n, _, _ in an.nodes]:
        owners.setdefault(id(n.value), []).append(n)
    for hs in groups.values():
        attached = [h for h in hs if id(h.node) in an.tree_ids and id(h.node) not in an.supplied_by]
        text = hs[0].text
        scanned_candidates = owners.get(id(text), [])  # node(s) whose value is the searched text
        for h in hs:
            if id(h.node) in an.tree_ids:
                # attached: if its parent is a context hit from the same text, that context must contain it
                p = h.node.parent
                ph = an.hit_by_id.get(id(p)) if p is not None else None
                if ph is not None and ph.call // nreg == h.call // nreg and not tainted(h.node) and not tainted(p):
                    stats["nested_or_suppressed"] += 1
                    if not (ph.start <= h.start and h.end <= ph.end):
                        v.append(("nested-under-non-containing-context", {"hit": [h.type, h.start, h.end], "context": [ph.type, ph.start, ph.end]}))
                    if decoded_rec(ph):
                        v.append(("nested-under-decoded-sibling", {"hit": [h.type, h.start, h.end], "context": [ph.type, ph.start, ph.end]}))
                continue
            if not h.value:
                continue  # empty results are never kept
            if not (0 <= h.start <= h.end <= len(text)):
                continue
            # suppressed inside a decoded attached hit?
            if any(decoded_rec(a) and a.start <= h.start and h.end <= a.end and a is not h for a in attached):
                stats["suppressed"] += 1
                stats["nested_or_suppressed"] += 1
                continue
            # restates the node it would be attached to?
            if any((not decoded_rec(a)) and a.start == h.start and a.type == h.type and a.value == h.value for a in attached):
                stats["selfmatch"] += 1
                continue
            if h.start == 0 and any(sc.type == h.type and sc.value == h.value for sc in scanned_candidates):
                stats["selfmatch"] += 1
                continue
            v.append(("lost-hit", {"source": h.source, "type": h.type, "start": h.start, "end": h.end, "value": h.value}))
    return v, stats
