"""Core data types: Outcome of checking one case, Unit of generated work, Ctx collecting results in a worker."""
from __future__ import annotations

import collections
import time
from typing import Any, Callable

from . import codec


class Outcome:
    """What checking one case established."""

    __slots__ = ("violations", "nontrivial", "labels", "nt_key", "excluded", "known_hits")

    def __init__(self):
        self.violations: list[tuple[str, Any]] = []  # (root-cause key, detail)
        self.nontrivial = False
        self.labels: list[str] = []
        self.nt_key = None  # what to hash for distinctness (default: the whole case)
        self.excluded: list[str] = []  # reasons for assertions/cases skipped by construction

    def violate(self, key: str, detail: Any = None):
        self.violations.append((key, detail))
        return self

    def label(self, *labels: str):
        self.labels.extend(labels)
        return self

    def exclude(self, reason: str):
        self.excluded.append(reason)
        return self


class Unit:
    """A unit of generated work inside one property check.

    kind = "hyp":    strategy() -> Hypothesis strategy of cases; check(case) -> Outcome
    kind = "custom": run(ctx, shard, nshards, seed, budget) drives its own loop and calls ctx.record / ctx.bulk
    kind = "fixed":  cases() -> list of cases; check(case) -> Outcome
    """

    def __init__(
        self,
        name: str,
        kind: str,
        check: Callable | None = None,
        strategy: Callable | None = None,
        run: Callable | None = None,
        cases: Callable | None = None,
        budget: int = 1000,
        shards: int | None = None,
        exhaustive: bool = False,
        describe: str = "",
        max_shrink_s: float = 40.0,
        hyp_settings: dict | None = None,
        timeout_s: float | None = None,
        scalable: bool = True,
    ):
        self.name = name
        self.kind = kind
        self.check = check
        self.strategy = strategy
        self.run = run
        self.cases = cases
        self.budget = budget
        self.shards = shards
        self.exhaustive = exhaustive
        self.describe = describe
        self.max_shrink_s = max_shrink_s
        self.hyp_settings = hyp_settings or {}
        self.timeout_s = timeout_s
        self.scalable = scalable


class Ctx:
    """Collects what a worker covered; decides which violations are known findings."""

    MAX_SAMPLES = 6

    def __init__(self, prop: str, unit: str, known_keys: set[str], muted: set[str] = frozenset()):
        self.prop = prop
        self.unit = unit
        self.known_keys = set(known_keys)
        self.muted = set(muted)
        self.evaluations = 0
        self.nontrivial_count = 0  # for units whose cases are distinct by construction
        self.nt_hashes: set[str] = set()
        self.labels: collections.Counter = collections.Counter()
        self.excluded: collections.Counter = collections.Counter()
        self.samples: list = []
        self._sample_nt = 0
        self.kf: dict[str, dict] = {}  # key -> {count, case, detail}
        self.viol: dict[str, dict] = {}  # key -> {count, case, detail}
        self.errors: list[str] = []
        self.notes: dict[str, Any] = {}
        self.current = None  # (start time, case) of the case being evaluated, read by the worker's watchdog thread
        self.t0 = time.time()

    # -- recording -----------------------------------------------------------------------------
    def record(self, case, out: Outcome, distinct_by_construction: bool = False) -> list[str]:
        """Record one evaluated case. Returns the list of unknown (non-known-finding, non-muted) keys."""
        self.evaluations += 1
        for lab in out.labels:
            self.labels[lab] += 1
        for r in out.excluded:
            self.excluded[r] += 1
        if out.nontrivial:
            if distinct_by_construction:
                self.nontrivial_count += 1
            else:
                self.nt_hashes.add(codec.digest(out.nt_key if out.nt_key is not None else case))
        self._maybe_sample(case, out)
        unknown = []
        for key, detail in out.violations:
            if key in self.known_keys:
                self._keep(self.kf, key, case, detail)
            elif key in self.muted:
                continue
            else:
                self._keep(self.viol, key, case, detail)
                unknown.append(key)
        return unknown

    def bulk(self, evaluations: int, nontrivial: int = 0, labels: dict | None = None):
        """Fast path for enumerations: add counts without per-case objects (cases distinct by construction)."""
        self.evaluations += evaluations
        self.nontrivial_count += nontrivial
        if labels:
            self.labels.update(labels)

    def sample(self, case):
        if len(self.samples) < self.MAX_SAMPLES:
            self.samples.append(codec.show(case))

    def _maybe_sample(self, case, out):
        if out.nontrivial and self._sample_nt < self.MAX_SAMPLES:
            # replace trivial samples by non-trivial ones
            if len(self.samples) >= self.MAX_SAMPLES:
                self.samples.pop(0)
            self.samples.append(codec.show(case))
            self._sample_nt += 1
        elif len(self.samples) < 2:
            self.samples.append(codec.show(case))

    @staticmethod
    def _keep(table, key, case, detail):
        sz = codec.size(case)
        e = table.get(key)
        if e is None:
            table[key] = {"count": 1, "case": codec.enc(case), "detail": codec.show(detail, 400), "size": sz}
        else:
            e["count"] += 1
            if sz < e["size"]:
                e.update(case=codec.enc(case), detail=codec.show(detail, 400), size=sz)

    def to_json(self):
        return {
            "prop": self.prop,
            "unit": self.unit,
            "evaluations": self.evaluations,
            "nontrivial_count": self.nontrivial_count,
            "nt_hashes": sorted(self.nt_hashes),
            "labels": dict(self.labels),
            "excluded": dict(self.excluded),
            "samples": self.samples,
            "kf": self.kf,
            "viol": self.viol,
            "errors": self.errors,
            "notes": self.notes,
            "wall_s": round(time.time() - self.t0, 3),
        }
