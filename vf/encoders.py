"""Encoders written independently of the decoders (table-driven base64 / hex, escapes, string expressions, shell
escaping). Each encoder states its documented domain (`applicable`) and what the decoder must report for its output:
(type, obfuscation label, decoded value, frame) where `frame` is the offset inside the decoded value at which the
original payload starts (non-zero only for the cmd layer, whose value keeps the 'cmd /c ' prefix).

Variation (quote kind, separator spelling, hex case, ...) is driven by a list of small integers (`v`), so Hypothesis only
has to draw a short list and everything else is deterministic.
"""
from __future__ import annotations

import re

B64 = b"ABCDEFGHIJKLMNOPQRSTUVWXYZabcdefghijklmnopqrstuvwxyz0123456789+/"
_B64_IDX = {c: i for i, c in enumerate(B64)}


# ---- own codecs ------------------------------------------------------------------------------------------
def b64encode(p: bytes) -> bytes:
    out = bytearray()
    for i in range(0, len(p), 3):
        chunk = p[i : i + 3]
        n = int.from_bytes(chunk + b"\x00" * (3 - len(chunk)), "big")
        q = [B64[n >> 18 & 63], B64[n >> 12 & 63], B64[n >> 6 & 63], B64[n & 63]]
        if len(chunk) == 1:
            q[2:] = b"=="
        elif len(chunk) == 2:
            q[3:] = b"="
        out += bytes(q)
    return bytes(out)


def b64decode_chars(chars: bytes):
    """RFC 4648 decoding of a run of base64 alphabet characters (padding already removed): full quanta plus a final
    2- or 3-character quantum; a dangling single character is invalid (returns None)"""
    n = len(chars)
    if n % 4 == 1:
        return None
    out = bytearray()
    for i in range(0, n - n % 4, 4):
        v = 0
        for c in chars[i : i + 4]:
            v = v << 6 | _B64_IDX[c]
        out += v.to_bytes(3, "big")
    r = n % 4
    if r:
        v = 0
        for c in chars[n - r :]:
            v = v << 6 | _B64_IDX[c]
        if r == 2:
            out.append(v >> 4 & 255)
        else:
            out += (v >> 2 & 0xFFFF).to_bytes(2, "big")
    return bytes(out)


HEXL = b"0123456789abcdef"
HEXU = b"0123456789ABCDEF"


def hexencode(p: bytes, upper=False) -> bytes:
    t = HEXU if upper else HEXL
    return bytes(x for c in p for x in (t[c >> 4], t[c & 15]))


def hexdecode(h: bytes):
    if len(h) % 2:
        return None
    try:
        return bytes(int(h[i : i + 2], 16) for i in range(0, len(h), 2))
    except ValueError:
        return None


def utf16le(p: bytes) -> bytes:
    return bytes(x for c in p for x in (c, 0))


# ---- helpers ---------------------------------------------------------------------------------------------
class V:
    """cursor over the variation list"""

    def __init__(self, v):
        self.v = list(v) or [0]
        self.i = 0

    def pick(self, options):
        x = self.v[self.i % len(self.v)]
        self.i += 1
        return options[x % len(options)]

    def num(self, n):
        x = self.v[self.i % len(self.v)]
        self.i += 1
        return x % n if n > 0 else 0


QUOTE_FREE = re.compile(rb"['\"`\\]")
OPERATOR_LIT = re.compile(rb"[\s_]*(?:&|\+|&amp;)[\s_]*")


def quote_free(p: bytes) -> bool:
    return not QUOTE_FREE.search(p)


def bare_b64_acceptable(t: bytes) -> bool:
    """the documented acceptance rules for bare base64 text (t includes padding)"""
    body = t.rstrip(b"=")
    return (
        len(t) % 4 == 0
        and len(body) >= 22
        and len(set(t)) > 6
        and not re.fullmatch(rb"[a-fA-F0-9]+", t)
        and not re.fullmatch(rb"[a-zA-Z]+", t)
        and t.count(b"/") / len(t) <= 3 / 32
    )


def k3_shape(hex_text: bytes) -> bool:
    """known finding K3: upper-case hex whose first 20+ characters are all digits is cut by the lower-case branch"""
    return bool(re.match(rb"[0-9]{20}", hex_text)) and bool(re.search(rb"[A-F]", hex_text))


# ---- encoders: f(payload, V) -> (blob, type, obfuscation, value, frame) or None when outside the domain -----------
def enc_b64(p, v):
    t = b64encode(p)
    if len(p) < 16 or not bare_b64_acceptable(t):
        return None
    return t, "", "encoding.base64", p, 0


def _q(v, s):
    q = v.pick([b"'", b'"'])
    return q + s + q


def enc_atob(p, v):
    if not p:
        return None
    return b"atob(" + _q(v, b64encode(p)) + b")", "javascript.string", "encoding.base64", p, 0


def enc_base64decode(p, v):
    if not p:
        return None
    name = v.pick([b"Base64Decode(", b"base64decode(", b"BASE64DECODE("])
    return name + _q(v, b64encode(p)) + b")", "vba.string", "encoding.base64", p, 0


def enc_frombase64string(p, v):
    if not p:
        return None
    pre = v.pick([b"", b"[System.Convert]::", b"[system.convert]::"])
    return pre + b"FromBase64String(" + _q(v, b64encode(p)) + b")", "powershell.bytes", "encoding.base64", p, 0


def enc_hex(p, v):
    if len(p) < 10:
        return None
    upper = v.num(2) == 1
    t = hexencode(p, upper)
    if upper and k3_shape(t):
        return None
    if not upper and re.fullmatch(rb"[0-9]+", t):
        pass
    return t, "", "decoded.hexadecimal", p, 0


def enc_fromhexstring(p, v):
    if len(p) < 10:
        return None
    upper = v.num(2) == 1
    t = hexencode(p, upper)
    if upper and k3_shape(t):
        return None
    pre = v.pick([b"", b"[System.Convert]::"])
    return pre + b"FromHexString('" + t + b"')", "powershell.bytes", "encoding.hexidecimal", p, 0


UTF16_OK = set(range(0x09, 0x0E)) | set(range(0x20, 0x7F)) | set(range(0xA0, 0x100))


def enc_utf16(p, v):
    if len(p) < 7 or any(c not in UTF16_OK for c in p) or any(c >= 0x80 for c in p):
        return None  # (non-ASCII Latin-1 changes length under UTF-8: handled by C14 directly, not stacked)
    return utf16le(p), "", "codec.uft-16", p, 0


def enc_xml(p, v):
    if len(p) < 5:
        return None
    forms = [b"&#%d;", b"&#x%02x;", b"&#X%02X;", b"&#%03d;", b"&#x%02X;"]
    mode = v.num(3)
    out = b""
    for i, c in enumerate(p):
        f = forms[v.num(len(forms))] if mode == 0 else forms[mode]
        out += f % c
    return out, "", "unescape.xml", p, 0


def enc_unescape(p, v):
    if not p:
        return None
    out = b""
    for c in p:
        if c in b"%'" or v.num(3) == 0:
            out += (b"%%%02X" if v.num(2) else b"%%%02x") % c
        else:
            out += bytes([c])
    return b"unescape('" + out + b"')", "string", "function.unescape", p, 0


CONCAT_SEPS = [b"+", b" + ", b"&", b" & ", b" &amp; ", b" & _\r\n  ", b"\t+\n", b"&amp;"]


def split_literals(p: bytes, v):
    for _ in range(8):
        k = 2 + v.num(4)
        cuts = sorted(v.num(len(p) + 1) for _ in range(k - 1))
        parts = [p[a:b] for a, b in zip([0] + cuts, cuts + [len(p)])]
        if not any(OPERATOR_LIT.fullmatch(x) for x in parts if x) and not any(re.fullmatch(rb"(?i)cmd(\.exe)?", x) for x in parts):
            return parts  # (a literal that is exactly "cmd" would be a quoted cmd token, not neutral text)
    return None


def enc_concat(p, v):
    if not p or not quote_free(p):
        return None
    parts = split_literals(p, v)
    if not parts:
        return None
    out = b""
    for j, c in enumerate(parts):
        if j:
            out += v.pick(CONCAT_SEPS)
        out += _q(v, c)
    return out, "string", "concatenation", p, 0


def pick_quote(p: bytes, v):
    """a quote character that can delimit p as a string literal: the single quote when p has none, the double quote when
    p has neither a double quote nor a back-tick / backslash escape; None when neither works"""
    options = []
    if b"'" not in p:
        options.append(b"'")
    if b'"' not in p and b"`" not in p and b"\\" not in p:
        options.append(b'"')
    if not options:
        return None
    return v.pick(options)


def enc_reverse(p, v):
    # the literal may contain the *other* quote character (so reverse can sit on top of a concatenation or a call form)
    if not p:
        return None
    q = pick_quote(p, v)
    if q is None:
        return None
    fn, typ, obf = v.pick([(b"reverse(", "string", "reverse"), (b"reversed(", "string", "reverse"), (b"StrReverse(", "vba.string", "vba.reverse"), (b"strreverse( ", "vba.string", "vba.reverse"), (b"Reverse(", "string", "reverse")])
    return fn + q + p[::-1] + q + v.pick([b")", b" )"]), typ, obf, p, 0


MARKERS = [b"XX", b"#~", b"QZQ", b"@@", b"zz9"]


def enc_replace(p, v):
    if not p or not quote_free(p):
        return None
    m = None
    for cand in MARKERS:
        if cand not in p and cand[:1] not in p[-1:] and p[:1] not in cand[-1:]:
            m = cand
            break
    if m is None:
        return None
    pos = sorted(v.num(len(p) + 1) for _ in range(1 + v.num(3)))
    x = b""
    last = 0
    for i in pos:
        x += p[last:i] + m
        last = i
    x += p[last:]
    if x.replace(m, b"") != p:
        return None
    k = v.num(4)
    if k == 0:
        return _q(v, x) + b".replace(" + _q(v, m) + b", " + _q(v, b"") + b")", "string", "replace", p, 0
    if k == 1:
        return v.pick([b"Replace(", b"replace("]) + _q(v, x) + b", " + _q(v, m) + b", " + _q(v, b"") + b")", "vba.string", "vba.replace", p, 0
    if k == 2:
        return _q(v, x) + b" -replace " + _q(v, m) + b"," + _q(v, b""), "powershell.string", "replace", p, 0
    if re.search(rb"[/\[\](){}\\.+*?^$,]", m):
        return None
    return _q(v, x) + b".replace(/" + m + b"/" + v.pick([b"g", b"", b"gi"]) + b", " + _q(v, b"") + b")", "javascript.string", "replace", p, 0


def enc_cmd(p, v):
    if not p or re.search(rb'["^\r\n\x00()]', p) or re.search(rb"(?i)cmd", p):
        return None
    c = b""
    n = 0
    for ch in p:
        if v.num(5) == 0:
            c += b"^"
            n += 1
        c += bytes([ch])
    if n == 0:
        c = b"^" + c
    if c.endswith(b"^"):
        return None
    return b"cmd /c " + c, "shell.cmd", "unescape.shell.carets", b"cmd /c " + p, 7


FILLER = b"\x00 lorem ipsum dolor amet quux zzyzx"


def enc_psbytes(p, v):
    if not p:
        return None
    if len(p) < 501:
        pad = (FILLER * (1 + (501 - len(p)) // len(FILLER)))[: 501 - len(p) + v.num(40)]
        p = p + pad
    if len(p) > 1200:
        return None
    pat = [v.num(2) for _ in range(3)]
    sep = v.pick([b", ", b",", b",  "])
    return sep.join((b"0x%02x" % c) if pat[i % 3] else (b"%d" % c) for i, c in enumerate(p)), "powershell.bytes", "", p, 0


ENCODERS = {
    "b64": enc_b64,
    "atob": enc_atob,
    "Base64Decode": enc_base64decode,
    "FromBase64String": enc_frombase64string,
    "hex": enc_hex,
    "FromHexString": enc_fromhexstring,
    "utf16": enc_utf16,
    "xml": enc_xml,
    "unescape": enc_unescape,
    "concat": enc_concat,
    "reverse": enc_reverse,
    "replace": enc_replace,
    "cmd": enc_cmd,
    "psbytes": enc_psbytes,
}
