"""One worker process: runs one shard of one unit and writes its result as JSON.

usage: python -m vf.worker <task.json>
Exit status: 0 = ran to completion (violations, if any, are in the result file); 2 = harness error.
"""
from __future__ import annotations

import importlib
import json
import os
import resource
import sys
import time
import traceback

from . import codec, observe, triage
from .unit import Ctx, Outcome


class Found(Exception):
    """Raised inside a Hypothesis test for the worker's target root cause."""


def write_result(path, ctx, done):
    data = ctx.to_json()
    data["done"] = done
    tmp = path + ".tmp"
    with open(tmp, "w") as f:
        json.dump(data, f)
    os.replace(tmp, path)


def run_hyp(unit, ctx, task, out_path):
    import hypothesis
    from hypothesis import HealthCheck, Phase, given, settings

    n = max(1, int(task["budget"]))
    state = {"target": None, "best": None, "best_size": None, "t_first": None, "calls_after": 0, "frozen": False}
    max_shrink_s = float(task.get("max_shrink_s", unit.max_shrink_s))

    def body(case):
        ctx.current = (time.time(), case)
        try:
            return _body(case)
        finally:
            ctx.current = None

    def _body(case):
        if state["frozen"]:
            # shrink budget used up: only the best case found so far still fails, everything else passes at once,
            # so Hypothesis converges immediately and its final replay is consistent (not flaky).
            if state["best"] is not None and codec.dumps(case) == state["best_dump"]:
                raise Found(state["target"])
            return
        out = unit.check(case)
        unknown = ctx.record(case, out)
        if not unknown:
            return
        if state["target"] is None:
            state["target"] = unknown[0]
            state["t_first"] = time.time()
        if state["target"] in unknown:
            sz = codec.size(case)
            if state["best_size"] is None or sz <= state["best_size"]:
                state["best"], state["best_size"], state["best_dump"] = case, sz, codec.dumps(case)
            state["calls_after"] += 1
            if time.time() - state["t_first"] > max_shrink_s:
                state["frozen"] = True
                # fail only for best from now on
                if codec.dumps(case) != state["best_dump"]:
                    return
            raise Found(state["target"])

    kw = dict(
        max_examples=n,
        database=None,
        deadline=None,
        derandomize=False,
        report_multiple_bugs=False,
        suppress_health_check=[HealthCheck.too_slow, HealthCheck.data_too_large, HealthCheck.large_base_example],
        phases=[Phase.generate, Phase.shrink],
        print_blob=False,
    )
    kw.update(unit.hyp_settings)
    test = hypothesis.seed(int(task["seed"]))(settings(**kw)(given(unit.strategy())(body)))
    try:
        test()
    except Found:
        pass
    except hypothesis.errors.Flaky as e:  # a non-deterministic check is a harness problem, never a violation
        ctx.errors.append("Flaky: %s" % (str(e)[:500],))
    except hypothesis.errors.FailedHealthCheck as e:
        ctx.errors.append("FailedHealthCheck (generator bug): %s" % (str(e)[:500],))
    except hypothesis.errors.Unsatisfiable as e:
        ctx.errors.append("Unsatisfiable (generator bug): %s" % (str(e)[:500],))
    if state["target"] is not None and state["best"] is not None:
        # make sure the shrunk case is what the result carries for that key
        e = ctx.viol.get(state["target"])
        if e is not None:
            # re-evaluate to get the detail of the minimal case
            try:
                out = unit.check(state["best"])
                det = [d for k, d in out.violations if k == state["target"]]
                e.update(case=codec.enc(state["best"]), size=state["best_size"], detail=codec.show(det[0] if det else None, 400), shrunk=True)
            except Exception:  # pragma: no cover
                pass
    ctx.notes["shrink_calls"] = state["calls_after"]


def run_fixed(unit, ctx, task):
    for case in unit.cases():
        ctx.current = (time.time(), case)
        out = unit.check(case)
        ctx.current = None
        ctx.record(case, out)


def start_watchdog(ctx, out_path, stuck_s):
    """A case stuck inside C code (e.g. catastrophic regex backtracking) cannot be interrupted by SIGALRM: the handler only
    runs between bytecodes. This thread (the `regex` module releases the GIL while matching) notices a case that has been
    running for more than stuck_s seconds, saves the worker's results together with the stuck case and ends the process;
    the runner then decides what the case means. It also touches a heartbeat file so that the runner can tell a worker
    whose interpreter is blocked altogether."""
    import threading

    hb = out_path + ".hb"

    def loop():
        while True:
            try:
                with open(hb, "w") as f:
                    f.write(str(time.time()))
            except OSError:
                pass
            cur = ctx.current
            if cur is not None and observe.IN_CONFIRM[0] == 0 and time.time() - cur[0] > stuck_s:
                data = ctx.to_json()
                data["done"] = False
                data["stuck"] = {"case": codec.enc(cur[1]), "seconds": round(time.time() - cur[0], 1)}
                tmp = out_path + ".tmp"
                with open(tmp, "w") as f:
                    json.dump(data, f)
                os.replace(tmp, out_path)
                os._exit(4)
            time.sleep(1.0)

    t = threading.Thread(target=loop, daemon=True)
    t.start()


def run_regress(mod, ctx, task):
    """Committed regression corpus: every file is re-executed through the plain check function (no Hypothesis)."""
    from .runner import find_unit, load_regress

    for fn, rec in load_regress(task["prop"]):
        unit = find_unit(mod, task["tier"], rec["unit"])
        case = codec.dec(rec["case"])
        out = unit.check(case)
        out.nontrivial = True
        before = set(ctx.viol)
        unknown = ctx.record(case, out)
        ctx.labels["regress"] += 1
        for k in unknown:
            if k not in before:
                ctx.viol[k]["regress_file"] = fn
                ctx.viol[k]["unit"] = rec["unit"]
        exp = rec.get("expect", "pass")
        if exp.startswith("kf:") and exp[3:] not in [k for k, _ in out.violations]:
            ctx.labels["regress.kf-no-longer-reproduces"] += 1


def main(argv):
    with open(argv[1]) as f:
        task = json.load(f)
    out_path = task["out"]
    mem = int(task.get("mem_gb", 3))
    try:
        resource.setrlimit(resource.RLIMIT_AS, (mem << 30, mem << 30))
    except Exception:
        pass
    sys.setrecursionlimit(int(task.get("recursion_limit", 1000)))
    ctx = Ctx(task["prop"], task["unit"], set(task.get("known_keys", [])), set(task.get("muted", [])))
    start_watchdog(ctx, out_path, float(task.get("stuck_s", 90)))
    cov = None
    if os.environ.get("VERIF_COVERAGE"):
        # self-audit only (tools/coverage_audit.sh): which repository lines do the generated cases reach?
        import coverage

        from . import REPO_SRC

        cov = coverage.Coverage(data_file=os.environ["VERIF_COVERAGE"], data_suffix=True, source=[os.path.join(REPO_SRC, "multidecoder")])
        cov.start()
    try:
        return _run(task, ctx, out_path)
    finally:
        if cov is not None:
            cov.stop()
            cov.save()


def _run(task, ctx, out_path):
    try:
        mod = importlib.import_module("vf.props." + task["prop"].lower())
        if task["unit"] == "__regress__":
            run_regress(mod, ctx, task)
            write_result(out_path, ctx, done=True)
            return 2 if ctx.errors else 0
        units = {u.name: u for u in mod.units(task["tier"])}
        unit = units[task["unit"]]
        if unit.kind == "hyp":
            run_hyp(unit, ctx, task, out_path)
        elif unit.kind == "fixed":
            run_fixed(unit, ctx, task)
        elif unit.kind == "custom":
            unit.run(ctx, int(task["shard"]), int(task["nshards"]), int(task["seed"]), int(task["budget"]))
        else:
            raise ValueError("unknown unit kind " + unit.kind)
    except BaseException as e:  # harness error
        ctx.errors.append("".join(traceback.format_exception(type(e), e, e.__traceback__))[-3000:])
        write_result(out_path, ctx, done=False)
        return 2
    write_result(out_path, ctx, done=True)
    return 2 if ctx.errors else 0


if __name__ == "__main__":
    sys.exit(main(sys.argv))
