"""Verification framework for CybercentreCanada/Multidecoder (property-based testing and fuzzing).

Importing this package puts the repository's working tree first on sys.path, so that every check
"rebuilds" (imports) Multidecoder from the current sources of $VERIF_REPO (default /repo).
"""
import os
import sys

VERIF_DIR = os.path.dirname(os.path.dirname(os.path.abspath(__file__)))
REPO_DIR = os.environ.get("VERIF_REPO", "/repo")
REPO_SRC = os.path.join(REPO_DIR, "src")

_deps = os.path.join(VERIF_DIR, ".deps")
if os.path.isdir(_deps) and _deps not in sys.path:
    sys.path.append(_deps)
if REPO_SRC not in sys.path:
    sys.path.insert(0, REPO_SRC)


def ensure_version_stub():
    """multidecoder/_version.py is git-ignored build output; the CLI imports it. Provide a stub if absent."""
    try:
        import multidecoder._version  # noqa: F401
    except Exception:
        import types

        m = types.ModuleType("multidecoder._version")
        m.version = m.__version__ = "0+verif"
        sys.modules["multidecoder._version"] = m


def die_with_parent():
    """preexec_fn for every child process the harness starts (Linux): the child gets SIGKILL when its parent dies, so a
    killed check never leaves scanners, hang checks or fuzzers running."""
    try:
        import ctypes
        import signal

        ctypes.CDLL("libc.so.6", use_errno=True).prctl(1, signal.SIGKILL)  # PR_SET_PDEATHSIG
    except Exception:
        pass
