"""Scan a corpus in a fresh interpreter and print one JSON line: list of tree JSON strings (one per document).

usage: python -m vf.scanjson <corpus.json> [cli]
corpus.json: list of {"data": hex, "depth": int|null}. With the 'cli' argument the documents are pushed through the
command line's main() (default output) instead of the library.
Run under different PYTHONHASHSEED values by the C09 check.
"""
import json
import sys

import vf  # noqa: F401


def main():
    corpus = json.load(open(sys.argv[1]))
    include = None
    if isinstance(corpus, dict):
        include = corpus.get("include")
        corpus = corpus["docs"]
    from multidecoder.json_conversion import tree_to_json
    from multidecoder.multidecoder import Multidecoder

    out = []
    if len(sys.argv) > 2 and sys.argv[2] == "cli":
        from vf.props.c20 import run_main

        for doc in corpus:
            o, _ = run_main([], bytes.fromhex(doc["data"]))
            out.append(o.decode("utf-8", "replace"))
    else:
        if include:
            from multidecoder.registry import build_registry

            md = Multidecoder(build_registry(include=include))
        else:
            md = Multidecoder()
        for doc in corpus:
            data = bytes.fromhex(doc["data"])
            t = md.scan(data) if doc.get("depth") is None else md.scan(data, doc["depth"])
            out.append(tree_to_json(t))
    print(json.dumps(out))


if __name__ == "__main__":
    main()
