#!/venv/bin/python
"""Confirms and evaluates the seeded defects under /verif/seeded/<id>/ (patch.diff, demo.py, meta.json).

For each: scratch copy of /repo -> demo must pass (exit 0) on the clean copy; apply patch.diff; the repository's own
test-suite must still pass; demo must fail (exit 1); then the quick checks named in meta.json["checks"] (default: the
property it breaks) are run against the copy (VERIF_REPO) and the outcome is stored in seeded/results.json.
usage: tools/seeded.py [--only id,id] [--tier quick]
"""
import argparse, json, os, shutil, subprocess, sys, time
HERE = os.path.dirname(os.path.dirname(os.path.abspath(__file__)))
sys.path.insert(0, os.path.join(HERE, "tools"))
from mutants import die_with_parent, make_copy, run_tests, run_check  # noqa: E402


def demo(d, path):
    env = dict(os.environ, PYTHONPATH=os.path.join(d, "src"), PYTHONDONTWRITEBYTECODE="1")
    try:
        r = subprocess.run(["/venv/bin/python", path], cwd=d, env=env, capture_output=True, text=True, timeout=600, preexec_fn=die_with_parent)
        return r.returncode, (r.stdout + r.stderr)[-400:]
    except subprocess.TimeoutExpired:
        return "timeout", ""


def main():
    ap = argparse.ArgumentParser()
    ap.add_argument("--only")
    ap.add_argument("--tier", default="quick")
    ap.add_argument("--seed", type=int, default=1)
    a = ap.parse_args()
    sdir = os.path.join(HERE, "seeded")
    out_path = os.path.join(sdir, "results.json")
    results = json.load(open(out_path)) if os.path.exists(out_path) else {}
    for sid in sorted(os.listdir(sdir)):
        p = os.path.join(sdir, sid)
        if not os.path.isdir(p) or (a.only and sid not in a.only.split(",")):
            continue
        meta = json.load(open(os.path.join(p, "meta.json")))
        d = make_copy("seed-" + sid)
        try:
            rec = {"property": meta["property"]}
            rec["demo_clean_rc"], _ = demo(d, os.path.join(p, "demo.py"))
            r = subprocess.run(["patch", "-p1", "-i", os.path.join(p, "patch.diff")], cwd=d, capture_output=True, text=True)
            rec["patch_applies"] = r.returncode == 0
            ok, tail = run_tests(d)
            rec["tests_pass_with_change"], rec["tests_tail"] = ok, tail
            rec["demo_changed_rc"], rec["demo_tail"] = demo(d, os.path.join(p, "demo.py"))
            rec["confirmed"] = bool(rec["patch_applies"] and ok and rec["demo_clean_rc"] == 0 and rec["demo_changed_rc"] == 1)
            rec["checks"] = {}
            for prop in meta.get("checks", [meta["property"]]):
                rec["checks"][prop] = run_check(d, prop, a.tier, a.seed)
            results[sid] = rec
            print(sid, "confirmed=%s" % rec["confirmed"], {k: ("CAUGHT" if v["violation"] else "MISSED rc=%s" % v["rc"]) + " %ss %s" % (v["wall_s"], ",".join(v["keys"])[:120]) for k, v in rec["checks"].items()}, flush=True)
        finally:
            shutil.rmtree(d, ignore_errors=True)
        json.dump(results, open(out_path, "w"), indent=1, sort_keys=True)


if __name__ == "__main__":
    main()
