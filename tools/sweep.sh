#!/bin/bash
# usage: tools/sweep.sh <tier> <seed> [props...]   - runs the registered commands one after the other and logs rc / wall time
cd "$(dirname "$0")/.." || exit 2
tier=$1; seed=$2; shift 2
props=${@:-C01 C02 C03 C04 C05 C06 C07 C08 C09 C10 C11 C12 C13 C14 C15 C16 C17 C18 C19 C20}
mkdir -p .scratch
log=.scratch/sweep-$tier-$seed.log
: > $log
for p in $props; do
  t0=$(date +%s)
  out=$(VERIF_SEED=$seed ./check $p $tier 2>&1); rc=$?
  t1=$(date +%s)
  echo "$p rc=$rc $((t1-t0))s $(echo "$out" | grep -c '^VIOLATION') violations :: $(echo "$out" | tail -1 | cut -c1-160)" >> $log
  if [ $rc -ne 0 ]; then echo "$out" | grep -E "^(VIOLATION|violation|HARNESS)" | cut -c1-400 >> $log; fi
done
echo done >> $log
