#!/usr/bin/env python3
"""Validates MANIFEST.json and evidence/*.json against the schemas in /root/.vp (uses the tooling venv's jsonschema)."""
import json, sys, glob, os
import jsonschema
HERE = os.path.dirname(os.path.dirname(os.path.abspath(__file__)))
ok = True
def check(path, schema):
    global ok
    try:
        jsonschema.validate(json.load(open(path)), json.load(open(schema)))
        print("valid  ", path)
    except Exception as e:
        ok = False
        print("INVALID", path, str(e)[:300])
check(os.path.join(HERE, "MANIFEST.json"), "/root/.vp/MANIFEST.schema.json")
for p in sorted(glob.glob(os.path.join(HERE, "evidence", "*.json"))):
    check(p, "/root/.vp/EVIDENCE.schema.json")
sys.exit(0 if ok else 1)
