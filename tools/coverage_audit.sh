#!/bin/bash
# Self-audit: line coverage of /repo/src/multidecoder reached by the quick checks (scaled down). Not a registered check.
cd "$(dirname "$0")/.." || exit 2
rm -rf .scratch/cov; mkdir -p .scratch/cov
export VERIF_COVERAGE="$PWD/.scratch/cov/data"
for p in ${@:-C01 C02 C03 C05 C06 C09 C10 C11 C12 C13 C14 C15 C16 C17 C18 C19 C20}; do
  ./check $p quick --no-evidence --scale 0.1 >/dev/null 2>&1
done
cd .scratch/cov && /venv/bin/python -m coverage combine --data-file=data data.* >/dev/null 2>&1
/venv/bin/python -m coverage report --data-file=data --show-missing --omit="*/domains.py" 2>/dev/null | tail -40
