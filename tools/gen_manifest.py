#!/usr/bin/env python3
"""Regenerates /verif/MANIFEST.json from the table below. A property is claimed iff vf/props/<id>.py exists."""
import json
import os

HERE = os.path.dirname(os.path.dirname(os.path.abspath(__file__)))

# id -> (technique, level text, level note, design section)
TABLE = {
    "C01": (
        "Hypothesis grammar/token-soup generation + structured URL mutation + directed cut-point families + enumerated parameter edges + (thorough) atheris coverage-guided fuzzing of the PE parser and of the analyzer-only scan; oracle = no exception / event-budgeted hang verdict / memory verdict, failures bucketed by root cause",
        "Generated-input search for crashes and non-termination of scan() and of every read-only view, over token soups, per-parser adversarial grammars with every cut point, truncated/corrupted PE headers and all integer depth limits; failures are bucketed by (exception type, innermost multidecoder frame) and shrunk.",
        "Absence of crashes is not established; inputs are <= 8 KB; hang verdicts come from a deterministic line-event budget (sys.monitoring), not wall-clock; pefile is exercised as shipped in /venv.",
        "5/C01",
    ),
    "C02": (
        "Hypothesis-generated encoder stacks; round-trip (inverse-by-construction) oracle on tree chain, spans, labels and flatten()",
        "Round-trip search: payload + indicator wrapped in 1-5 generated layers drawn from 17 encoders written independently of the decoders, embedded at generated offsets; the expected chain of nodes (span, type, label, plaintext), the indicator beneath it and the flattened text are known by construction.",
        "Only the listed encoders / payload families; K3-shaped hex (upper-case with >= 20 leading digits) is excluded by construction and counted.",
        "5/C02",
    ),
    "C03": (
        "Hypothesis token-soup / grammar documents through a recording registry; validity predicate over every node (identity-based walk)",
        "Every node of every generated scan result is checked against the tree-shape and span-bounds predicate written from the statement; decoder-supplied sub-structure is classified by the recording registry wrapper.",
        "Known findings K1/K2 (test-pinned shell spans) are triaged by root-cause key; documents <= 8 KB.",
        "5/C03",
    ),
    "C04": (
        "recording-registry wrapper + Hypothesis documents and synthetic registries; oracle = recorded (text, a, b) of each hit vs the node's final position",
        "For every hit any registry entry returned (shipped decoders and synthetic user registries), the node that ends up in the tree is compared with the snapshot taken before the engine shifted it: absolute start, length and original slice.",
        "Hits are identified by object identity; decoders that return the same object twice are out of scope.",
        "5/C04",
    ),
    "C05": (
        "Hypothesis documents + directed context>decoded>raw family + synthetic registries; invariant over every engine-built child list plus accounting of every recorded hit",
        "Laminarity (both directions) and the start/end ordering are checked on every child list the engine builds; every recorded hit must be attached, nested under a containing undecoded sibling, suppressed inside a decoded sibling or dropped as a self-match.",
        "Decoder-supplied children are exempt (the statement is about children the scan attaches).",
        "5/C05",
    ),
    "C06": (
        "exhaustive enumeration of small hit configurations (itertools) + Hypothesis sampling beyond + replay of real decoder hit streams; differential against a reference model written from the statement",
        "Model-based differential testing of scan_node against an independent interval-nesting reference: exhaustive up to a stated size bound, sampled beyond it, and on hit streams recorded from the shipped decoders.",
        "The reference model is my reading of the statement; registries return non-empty in-bounds hits (others are discarded and counted).",
        "5/C06",
    ),
    "C07": (
        "Hypothesis documents and always-decodable synthetic registries; distance bound via recording wrapper + metamorphic embedding tree(k) in tree(k+1)",
        "For generated inputs and depth limits -3..12: the recorder proves decoders only ever see values at distance < k (exactly k passes with an always-decodable registry), and tree(k) embeds order-preservingly in tree(k+1).",
        "Distance counts decoded ancestors plus decoder-supplied-child steps (the code's and C08's reading of 'decoding steps').",
        "5/C07",
    ),
    "C08": (
        "Hypothesis documents / encoder stacks; metamorphic oracle: children of each decoded node == independent scan_node of a fresh node with the remaining depth",
        "Every decoded node without decoder-supplied sub-structure in generated trees is re-scanned on its own with the reconstructed remaining depth and compared child for child; the same blob in different surroundings must give identical sub-results.",
        "Remaining depth is reconstructed from the path (one per decoded ancestor / supplied-child step).",
        "5/C08",
    ),
    "C09": (
        "Hypothesis rule-based state machine over scan histories (model = result of a fresh interpreter per document) + subprocess sweeps over PYTHONHASHSEED (default and include-list registries, library and CLI) + generated directory-enumeration permutations + 8-thread runs on long pure-Python decoder inputs; oracle = equality of tree JSON / CLI stdout",
        "Histories (rule-based state machine on shared and fresh scanners, registry rebuilds and CLI calls, documents with letter-case variants; every result must equal the result of a pristine interpreter), hash seeds (fresh interpreters, default and include-list registries), generated directory enumeration orders (shipped and generated keyword directories) and threads (sampled schedules) are compared for byte-equal JSON trees / CLI output on tie-rich generated documents.",
        "Thread schedules are sampled by the OS with a 1 microsecond switch interval, not enumerated (detection of a thread-unsafe change is probabilistic); hash seeds are sampled (6 per corpus).",
        "5/C09",
    ),
    "C10": (
        "Hypothesis network-token soups (positives + near-misses, wrapped and encoded); validity predicates written from the statement over every network.* node",
        "Every network.ip / ipv6 / domain / email / url node anywhere in generated trees is checked against an independent grammar for its kind (own dotted-quad parser, own percent-normaliser, own RFC 3986 splitter, the IANA table).",
        "TLD table is read from multidecoder.domains (the statement's 'registered top-level domain'); everything else is re-implemented.",
        "5/C10",
    ),
    "C11": (
        "Hypothesis indicator grammars x embeddings; construction-based oracle (span, type, canonical value known by construction) + offset-shift metamorphic relation",
        "Each indicator grammar's positive instances are embedded at generated offsets between neutral delimiters; the node with exactly that absolute span, documented type and canonical value must exist, and moving the indicator must move the node.",
        "Documented false-positive heuristics are excluded by construction and counted; 'shadowed by an enclosing decoded node' is counted, not failed.",
        "5/C11",
    ),
    "C12": (
        "Hypothesis URLs / Windows paths built from parts; construction-based oracle for every part child (span into the value, decoded value, label)",
        "URLs are generated component by component, so the expected position and decoding of every part inside the normalised value is known without parsing; Windows paths likewise from prefix + segments.",
        "Own normaliser for dot segments / percent decoding written from the statement.",
        "5/C12",
    ),
    "C13": (
        "Hypothesis payloads encoded by own table-driven base64/hex/xor encoders (inverse oracle) + forward check of every labelled node with an own RFC 4648 decoder",
        "Bit-exactness in both directions: every base64 / hex / xor node of generated trees is re-derived from the text it covers with independent decoders, and generated payloads at the acceptance boundaries must come back as one node with the exact span.",
        "K3 (upper-case hex with long digit prefix) is a known finding; multibyte xor is checked against 'some repeating key of period <= 65'.",
        "5/C13",
    ),
    "C14": (
        "Hypothesis byte / code-point sequences through own escape encoders (inverse oracle) + forward re-derivation of every labelled node",
        "XML references, chr(), unescape() and UTF-16 runs over all 256 byte values / code points 0..99999, valid and near-miss spellings; node span, value and absence (unencodable code points) checked by construction.",
        "None beyond the generator domains stated in the evidence.",
        "5/C14",
    ),
    "C15": (
        "Hypothesis literals x dialect grammars; oracle = Python's own +, [::-1] and a hand-written left-to-right replace",
        "Concatenation chains, three reverse spellings and four replace dialects over quote-free literals with every separator spelling; span = whole expression, type/label per dialect, value by the reference evaluator.",
        "Literals exclude quote characters and bare joining operators, as the statement does.",
        "5/C15",
    ),
    "C16": (
        "Hypothesis command-text grammars with every cut point; reference cmd.exe caret stripper / span rule written from the statement; construction-based oracle for encoded PowerShell invocations",
        "Caret/quote/CR/LF/paren interleavings, cmd tokens in all spellings and surroundings, and generated encoded-command invocations (all switch prefixes, styles, quoting, carets) are checked against a reference de-escaper, a reference span rule and by-construction expected values.",
        "A caret before a bare CR is outside the statement (only totality is checked there); K1/K2 are known findings.",
        "5/C16",
    ),
    "C17": (
        "exhaustive enumeration over a small alphabet (itertools, sharded over 16 processes) + Hypothesis sampling; differential against a reference keyword search written from the statement",
        "Exhaustive differential testing of find_keywords against an independent reference for all data up to a length bound over a 6-symbol alphabet x all keywords of length 1-3, plus sampled larger cases (prefix keywords, punctuation, high bytes) directly and through a registry built from generated keyword directories.",
        "ASCII letter case; keyword lists without duplicates.",
        "5/C17",
    ),
    "C18": (
        "enumeration of include/exclude subsets + Hypothesis keyword-directory layouts; oracle = independent enumeration (ast parse of decoder modules, own directory walk) and behavioural probing",
        "Registry contents are compared with an independent enumeration for all 2^16 include subsets, sampled exclude subsets and generated keyword directory layouts; each keyword searcher is probed with its own words.",
        "A committed snapshot of the pinned commit's decoder names is used as a lower bound for 'every shipped decoder'.",
        "5/C18",
    ),
    "C19": (
        "Hypothesis random well-formed trees + scan results; differential against an independent reference flatten + metamorphic identity relation",
        "flatten() is compared with a reference written from the statement on generated trees (overlapping, nested, coinciding, identity children; string types) and scan results; undecoded scans must flatten to the input.",
        "Trees satisfy the statement's precondition (children in bounds, ordered by start).",
        "5/C19",
    ),
    "C20": (
        "Hypothesis trees (all byte values, non-ASCII labels, deep nesting) round-trip + single-field perturbation; CLI differential (in-process main() and real subprocesses) against the library tree",
        "JSON round-trip, structural equality under single-field perturbations, and CLI output modes are checked against the library's own tree and an independent pre-order/label reference.",
        "K5 (recursion depth) bounds tree depth; CLI subprocess sample is smaller than the in-process volume.",
        "5/C20",
    ),
}


def main():
    checks = []
    na = []
    for pid in sorted(TABLE):
        tech, text, note, ref = TABLE[pid]
        if os.path.exists(os.path.join(HERE, "vf", "props", pid.lower() + ".py")):
            checks.append(
                {
                    "property_id": pid,
                    "quick_cmd": "./check %s quick" % pid,
                    "thorough_cmd": "./check %s thorough" % pid,
                    "evidence_file": "evidence/%s.json" % pid,
                    "replay_cmd_template": "./check %s --replay {path}" % pid,
                    "engine": "vf",
                    "level_claimed": {"category": "exploration", "text": text, "design_ref": "DESIGN.md section " + ref},
                    "level_note": note,
                    "technique": tech,
                }
            )
        else:
            na.append({"property_id": pid, "reason": "not claimed yet: the generated-input check for this property (DESIGN.md section %s) is not built in the committed tree" % ref})
    manifest = {
        "version": 1,
        "setup_cmd": "./setup.sh",
        "hooks": {
            "guard": "MULTIDECODER_VERIF",
            "enable": "no source hooks: every observation point is reachable through the public API (recording registry wrapper); checks import /repo/src directly",
            "baseline_off_cmd": "cd /repo && /venv/bin/python -m pytest -ra -q -p no:cacheprovider --timeout=900 --continue-on-collection-errors",
            "source_commits": [],
            "add_only": True,
        },
        "engines": [
            {
                "name": "vf",
                "path": "vf/",
                "serves_properties": [c["property_id"] for c in checks],
                "kind_free_text": "property-based testing / fuzzing harness: Hypothesis strategies + exhaustive enumerations sharded over 16 worker processes, root-cause triage against known_findings.json, shrunk replay files",
            }
        ],
        "checks": checks,
        "not_applicable": na,
        "notes": "All checks: ./check <id> quick|thorough (VERIF_SEED honoured); replay: ./check <id> --replay <file>. Known findings: known_findings.json. Sensitivity results: mutants/results.json and seeded/.",
    }
    with open(os.path.join(HERE, "MANIFEST.json"), "w") as f:
        json.dump(manifest, f, indent=1)
    print("claimed:", [c["property_id"] for c in checks], "unclaimed:", len(na))


if __name__ == "__main__":
    main()
