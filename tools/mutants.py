#!/venv/bin/python
"""Sensitivity protocol (DESIGN 4.8): apply each catalogued mutant to a scratch copy of the repository,
confirm the repository's own tests still pass, run the quick checks of the named properties against the copy
(VERIF_REPO) and record whether a VIOLATION was reported.

usage: tools/mutants.py [--only id,id] [--props C17,C05] [--tier quick] [--skip-tests] [--jobs N]
Scratch copies live under /tmp/vf-mut-* and are removed as soon as a mutant is done.
"""
import argparse
import json
import os
import shutil
import subprocess
import sys
import tempfile
import time

HERE = os.path.dirname(os.path.dirname(os.path.abspath(__file__)))
REPO = os.environ.get("VERIF_REPO_BASE", "/repo")


def die_with_parent():
    try:
        import ctypes
        import signal

        ctypes.CDLL("libc.so.6").prctl(1, signal.SIGKILL)
    except Exception:
        pass


def make_copy(tag):
    d = tempfile.mkdtemp(prefix="vf-mut-%s-" % tag, dir="/tmp")
    for name in ("src", "tests", "pyproject.toml", "setup.cfg", "setup.py", "tox.ini"):
        p = os.path.join(REPO, name)
        if os.path.isdir(p):
            shutil.copytree(p, os.path.join(d, name), ignore=shutil.ignore_patterns("__pycache__", "*.egg-info"))
        elif os.path.exists(p):
            shutil.copy(p, d)
    return d


def apply(d, m):
    if "patch" in m:
        r = subprocess.run(["git", "apply", "--unsafe-paths", "--directory", d, os.path.join(HERE, m["patch"])], cwd=d, capture_output=True, text=True)
        if r.returncode:
            # fall back to patch(1)
            r = subprocess.run(["patch", "-p1", "-i", os.path.join(HERE, m["patch"])], cwd=d, capture_output=True, text=True)
            if r.returncode:
                raise RuntimeError("patch failed: " + r.stdout + r.stderr)
        return
    for ed in m["edits"]:
        path = os.path.join(d, ed["file"])
        s = open(path).read()
        if s.count(ed["old"]) < 1:
            raise RuntimeError("mutant %s: pattern not found in %s: %r" % (m["id"], ed["file"], ed["old"]))
        s = s.replace(ed["old"], ed["new"], ed.get("count", 1))
        open(path, "w").write(s)


def run_tests(d):
    env = dict(os.environ, PYTHONPATH=os.path.join(d, "src"), PYTHONDONTWRITEBYTECODE="1")
    try:
        r = subprocess.run(["/venv/bin/python", "-m", "pytest", "-q", "-x", "-p", "no:cacheprovider", "tests"], cwd=d, env=env, capture_output=True, text=True, timeout=180, preexec_fn=die_with_parent)
    except subprocess.TimeoutExpired:
        return False, "test-suite timed out (hang)"
    tail = (r.stdout.strip().splitlines() or [""])[-1]
    return r.returncode == 0, tail


def run_check(d, prop, tier, seed):
    env = dict(os.environ, VERIF_REPO=d, VERIF_SEED=str(seed))
    t0 = time.time()
    r = subprocess.run([os.path.join(HERE, "check"), prop, tier, "--no-evidence"], cwd=HERE, env=env, capture_output=True, text=True, preexec_fn=die_with_parent)
    keys = [ln.split()[1] for ln in r.stdout.splitlines() if ln.startswith("violation key=")]
    return {"rc": r.returncode, "violation": "VIOLATION property=" in r.stdout, "keys": keys, "wall_s": round(time.time() - t0, 1),
            "tail": r.stdout.strip().splitlines()[-1:] if r.returncode not in (0, 1) else []}


def main():
    ap = argparse.ArgumentParser()
    ap.add_argument("--only")
    ap.add_argument("--props")
    ap.add_argument("--tier", default="quick")
    ap.add_argument("--seed", type=int, default=1)
    ap.add_argument("--skip-tests", action="store_true")
    ap.add_argument("--catalog", default=os.path.join(HERE, "mutants", "catalog.json"))
    ap.add_argument("--out", default=os.path.join(HERE, "mutants", "results.json"))
    a = ap.parse_args()
    cat = json.load(open(a.catalog))
    only = set(a.only.split(",")) if a.only else None
    props = set(a.props.split(",")) if a.props else None
    results = {}
    if os.path.exists(a.out):
        results = json.load(open(a.out))
    for m in cat:
        if only and m["id"] not in only:
            continue
        if props and not (set(m["props"]) & props):
            continue
        d = make_copy(m["id"])
        try:
            apply(d, m)
            rec = {"props": {}, "note": m.get("note", "")}
            if not a.skip_tests:
                ok, tail = run_tests(d)
                rec["tests_pass"] = ok
                rec["tests_tail"] = tail
            for p in m["props"]:
                if props and p not in props:
                    continue
                rec["props"][p] = run_check(d, p, a.tier, a.seed)
            results[m["id"]] = rec
            det = {p: ("CAUGHT" if v["violation"] else "MISSED rc=%s" % v["rc"]) + " %ss %s" % (v["wall_s"], ",".join(v["keys"])[:100]) for p, v in rec["props"].items()}
            print(m["id"], "tests_pass=%s" % rec.get("tests_pass"), det, flush=True)
        finally:
            shutil.rmtree(d, ignore_errors=True)
        json.dump(results, open(a.out, "w"), indent=1, sort_keys=True)


if __name__ == "__main__":
    main()
